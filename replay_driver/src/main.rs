//! usage: replay-driver kind=<slice|cloned|copied|vec|array|range|iter> [len=N] [s=A e=B] [c=C] ops=<op>[,<op>...]
//!   ops: next | chunk:<n>[:<take>] | buffered:<n>[:<take>] | skip | len | seq | drop | clone
//!   c   : value stored into the position counter before the first operation (the state a havoc'd atomic result corresponds to;
//!         positions below min(c, len) count as "moved out earlier"); for kind=iter: number of single pulls made beforehand
//! Every result is compared with the sequential cursor model; consuming kinds additionally keep a drop ledger.
//! Prints "REPRODUCED: <what>" and exits 1 at the first mismatch or panic, "NOT-REPRODUCED" and exits 0 otherwise.
use orx_concurrent_iter::iter::atomic_iter::AtomicIter;
use orx_concurrent_iter::*;
use std::collections::HashMap;
use std::sync::atomic::{AtomicUsize, Ordering};

const MAXLEN: usize = 8;
static DROPS: [AtomicUsize; MAXLEN] = [AtomicUsize::new(0), AtomicUsize::new(0), AtomicUsize::new(0), AtomicUsize::new(0), AtomicUsize::new(0), AtomicUsize::new(0), AtomicUsize::new(0), AtomicUsize::new(0)];
#[derive(Debug)]
struct D(usize);
impl Drop for D { fn drop(&mut self) { if self.0 < MAXLEN { DROPS[self.0].fetch_add(1, Ordering::SeqCst); } } }

struct Repro(String);
fn fail(msg: String) -> ! { std::panic::panic_any(Repro(msg)) }

struct Model { cur: u128, len: usize, delivered: Vec<bool>, owned_from: usize, skipped_at: Option<usize> }
impl Model {
    fn pull(&mut self, n: usize) -> (usize, usize) {
        let b = self.cur;
        self.cur += n as u128;
        if b < self.len as u128 { let b = b as usize; (b, if n < self.len - b { b + n } else { self.len }) } else { (self.len, self.len) }
    }
    fn remaining(&self) -> usize { if self.cur < self.len as u128 { self.len - self.cur as usize } else { 0 } }
}

#[derive(Clone, Debug)]
enum Op { Next, Chunk(usize, usize), Buffered(usize, usize), Skip, Len, Seq, DropIt, Values, Ids, ChunkFold(usize, usize) }

fn parse_ops(s: &str) -> Vec<Op> {
    s.split(',').filter(|x| !x.is_empty()).map(|o| {
        let p: Vec<&str> = o.split(':').collect();
        let num = |i: usize, d: usize| p.get(i).map(|x| if *x == "MAX" { usize::MAX } else { x.parse().expect("number") }).unwrap_or(d);
        match p[0] { "next" => Op::Next, "chunk" => Op::Chunk(num(1, 1), num(2, usize::MAX)), "buffered" => Op::Buffered(num(1, 1), num(2, usize::MAX)),
                     "skip" => Op::Skip, "len" => Op::Len, "seq" => Op::Seq, "drop" => Op::DropIt,
                     // one item through the `for`-loop adaptors; a chunk of n consumed k items with next() and the rest by internal iteration
                     "values" => Op::Values, "ids" => Op::Ids, "chunkfold" => Op::ChunkFold(num(1, 1), num(2, 0)), x => panic!("unknown op {}", x) }
    }).collect()
}

// generic driver over any ConcurrentIter whose items can be mapped to their source position
fn run<C: ConcurrentIter, F: Fn(&C::Item) -> usize + Copy>(it: C, m: &mut Model, ops: &[Op], pos: F, consuming: bool)
where C::Item: std::fmt::Debug {
    let mut it = Some(it);
    for op in ops {
        let i = match it.as_ref() { Some(i) => i, None => break };
        match op {
            Op::Next => {
                let (b, e) = m.pull(1);
                let r = i.next_id_and_value();
                match r {
                    Some(x) => { if b >= e { fail(format!("next delivered ({}, {:?}) although the cursor model is past the end (position {})", x.idx, x.value, b)); }
                                 if x.idx != b || pos(&x.value) != b { fail(format!("next delivered idx {} value@{} but the cursor model expects position {}", x.idx, pos(&x.value), b)); }
                                 m.delivered[b] = true; if consuming { std::mem::forget(x.value); } }
                    None => if b < e { fail(format!("next reported the end although position {} is undelivered", b)); }
                }
            }
            Op::Chunk(n, take) | Op::Buffered(n, take) => {
                let (b, e) = m.pull(*n);
                let buffered = matches!(op, Op::Buffered(..));
                let mut buf = if buffered { Some(i.buffered_iter(*n)) } else { None };
                let mut check = |begin: usize, vals: &mut dyn ExactSizeIterator<Item = C::Item>| {
                    if b >= e { fail(format!("chunk pull returned a chunk (begin {}) although the cursor model is past the end", begin)); }
                    if begin != b { fail(format!("chunk begins at {} but the cursor model expects {}", begin, b)); }
                    if vals.len() != e - b { fail(format!("chunk announces {} elements, the cursor model expects {}", vals.len(), e - b)); }
                    let mut k = 0;
                    while k < *take { match vals.next() { Some(v) => { if k >= e - b { fail(format!("chunk yields more elements than it announced ({:?})", v)); }
                                                                          if pos(&v) != b + k { fail(format!("chunk element {} is source position {} instead of {}", k, pos(&v), b + k)); }
                                                                          m.delivered[b + k] = true; if consuming { std::mem::forget(v); } }
                                                            None => { if k < e - b { fail(format!("chunk yields only {} of the {} elements it announced", k, e - b)); } break; } } k += 1; }
                };
                if buffered {
                    match buf.as_mut().unwrap().next() { Some(mut ch) => check(ch.begin_idx, &mut ch.values), None => if b < e { fail(format!("buffered pull reported the end although position {} is undelivered", b)); } }
                } else {
                    match i.next_chunk(*n) { Some(mut ch) => check(ch.begin_idx, &mut ch.values), None => if b < e { fail(format!("chunk pull reported the end although position {} is undelivered", b)); } }
                }
            }
            Op::Values | Op::Ids => {
                let (b, e) = m.pull(1);
                let r: Option<(Option<usize>, C::Item)> = if matches!(op, Op::Values) { i.values().next().map(|v| (None, v)) } else { i.ids_and_values().next().map(|(k, v)| (Some(k), v)) };
                match r {
                    Some((k, v)) => { if b >= e { fail(format!("the for-loop adaptor delivered {:?} although the cursor model is past the end (position {})", v, b)); }
                                      if k.map(|k| k != b).unwrap_or(false) || pos(&v) != b { fail(format!("the for-loop adaptor delivered idx {:?} value@{} but the cursor model expects position {}", k, pos(&v), b)); }
                                      m.delivered[b] = true; if consuming { std::mem::forget(v); } }
                    None => if b < e { fail(format!("the for-loop adaptor reported the end although position {} is undelivered", b)); }
                }
            }
            Op::ChunkFold(n, take) => {
                let (b, e) = m.pull(*n);
                match i.next_chunk(*n) {
                    Some(ch) => {
                        if b >= e { fail(format!("chunk pull returned a chunk (begin {}) although the cursor model is past the end", ch.begin_idx)); }
                        if ch.begin_idx != b { fail(format!("chunk begins at {} but the cursor model expects {}", ch.begin_idx, b)); }
                        let mut vals = ch.values;
                        let mut k = 0;
                        while k < *take && k < e - b { if let Some(v) = vals.next() { if pos(&v) != b + k { fail(format!("chunk element {} is source position {} instead of {}", k, pos(&v), b + k)); } m.delivered[b + k] = true; if consuming { std::mem::forget(v); } } k += 1; }
                        let delivered = &mut m.delivered;
                        let cnt = vals.fold(k, |j, v| { if j >= e - b { fail(format!("internal iteration over the chunk yields more elements than it announced ({:?})", v)); }
                                                         if pos(&v) != b + j { fail(format!("internal iteration over the chunk yields source position {} where {} is expected", pos(&v), b + j)); }
                                                         delivered[b + j] = true; if consuming { std::mem::forget(v); } j + 1 });
                        if cnt != e - b { fail(format!("next() + internal iteration yield {} of the {} elements of the chunk", cnt, e - b)); }
                    }
                    None => if b < e { fail(format!("chunk pull reported the end although position {} is undelivered", b)); }
                }
            }
            Op::Skip => { i.skip_to_end(); if m.cur < m.len as u128 { if m.skipped_at.is_none() { m.skipped_at = Some(m.cur as usize); } m.cur = m.len as u128; } if i.has_more() != HasMore::No { fail("has_more is not No after skip_to_end".into()); } }
            Op::Len => {
                let rem = m.remaining();
                if let Some(l) = i.try_get_len() { if l != rem { fail(format!("try_get_len = {} but {} elements remain", l, rem)); } }
                let hm = i.has_more();
                if hm == HasMore::No && rem > 0 { fail(format!("has_more = No but {} elements remain", rem)); }
                if let HasMore::Yes(k) = hm { if k != rem { fail(format!("has_more = Yes({}) but {} elements remain", k, rem)); } }
            }
            Op::Seq => {
                let k = if m.cur < m.len as u128 { m.cur as usize } else { m.len };
                let s = it.take().unwrap().into_seq_iter();
                match m.skipped_at {
                    None => {
                        let mut j = k;
                        for v in s { if j >= m.len { fail(format!("into_seq_iter yields {:?} beyond the undelivered remainder", v)); }
                                     if pos(&v) != j { fail(format!("into_seq_iter yields source position {} where {} is expected", pos(&v), j)); }
                                     j += 1; m.delivered[pos(&v).min(MAXLEN - 1)] = true; if consuming { std::mem::forget(v); } }
                        if j != m.len { fail(format!("into_seq_iter yields {} elements, {} undelivered elements remain", j - k, m.len - k)); }
                    }
                    Some(from) => {
                        // after skip_to_end the remainder is a (possibly empty) suffix of the undelivered elements
                        let mut prev: Option<usize> = None;
                        for v in s { let p = pos(&v);
                                     if p < from || p >= m.len || m.delivered[p.min(MAXLEN - 1)] { fail(format!("after skip_to_end into_seq_iter yields source position {} which is not an undelivered element", p)); }
                                     if let Some(q) = prev { if p != q + 1 { fail(format!("after skip_to_end into_seq_iter is not in source order ({} after {})", p, q)); } }
                                     prev = Some(p); m.delivered[p.min(MAXLEN - 1)] = true; if consuming { std::mem::forget(v); } }
                        if let Some(q) = prev { if q + 1 != m.len { fail(format!("after skip_to_end into_seq_iter is not a suffix (ends at position {})", q)); } }
                    }
                }
            }
            Op::DropIt => { drop(it.take()); }
        }
    }
    drop(it);
}

fn ledger(m: &Model) {
    for k in 0..m.len.min(MAXLEN) {
        let d = DROPS[k].load(Ordering::SeqCst);
        if k < m.owned_from { if d != 0 { fail(format!("element {} was moved out before the scenario but was dropped {} time(s) by the iterator", k, d)); } }
        else if m.delivered[k] { if d != 0 { fail(format!("element {} was delivered and also dropped {} time(s) by the iterator (never both)", k, d)); } }
        else if d != 1 { fail(format!("undelivered element {} was destroyed {} time(s) (exactly once expected)", k, d)); }
    }
}

fn run_scenario(args: &HashMap<String, String>) -> Result<(), String> {
    for d in DROPS.iter() { d.store(0, Ordering::SeqCst); }
    let num = |k: &str, d: usize| args.get(k).map(|x| if x == "MAX" { usize::MAX } else { x.parse().expect("number") }).unwrap_or(d);
    let kind = args.get("kind").cloned().unwrap_or_default();
    let ops = parse_ops(args.get("ops").map(|s| s.as_str()).unwrap_or(""));
    let c = num("c", 0);
    let nowrap = args.get("nowrap").map(|x| x == "1").unwrap_or(false);
    if nowrap {
        // the no-wrap regime of C01..C05: skip scenarios in which the position counter would exceed usize::MAX
        // (cumulative requested count, where skip_to_end counts as jumping to the end of the source)
        let len = match kind.as_str() { "range" => num("e", 3).saturating_sub(num("s", 0)), "array" => 3, _ => num("len", 3).min(MAXLEN) };
        let mut cur = if kind == "iter" { c.min(16) as u128 } else { c as u128 };
        for o in &ops { match o { Op::Next | Op::Values | Op::Ids => cur += 1, Op::Chunk(n, _) | Op::Buffered(n, _) | Op::ChunkFold(n, _) => cur += *n as u128, Op::Skip => if cur < len as u128 { cur = len as u128 }, _ => {} } }
        if cur > usize::MAX as u128 { return Ok(()); }
    }
    let r = std::panic::catch_unwind(|| {
        match kind.as_str() {
            "slice" => { let len = num("len", 3).min(MAXLEN); let data: Vec<usize> = (0..len).collect(); let it = data.con_iter(); it.counter().store(c);
                         let mut m = Model { cur: c as u128, len, delivered: vec![false; MAXLEN], owned_from: 0, skipped_at: None }; run(it, &mut m, &ops, |v: &&usize| **v, false); }
            "cloned" => { use orx_concurrent_iter::IntoCloned; let len = num("len", 3).min(MAXLEN); let data: Vec<usize> = (0..len).collect(); let it = data.con_iter().cloned(); { use orx_concurrent_iter::iter::atomic_iter::AtomicIter; it.counter().store(c); }
                          let mut m = Model { cur: c as u128, len, delivered: vec![false; MAXLEN], owned_from: 0, skipped_at: None }; run(it, &mut m, &ops, |v: &usize| *v, false); }
            "copied" => { use orx_concurrent_iter::IntoCopied; let len = num("len", 3).min(MAXLEN); let data: Vec<usize> = (0..len).collect(); let it = data.con_iter().copied(); { use orx_concurrent_iter::iter::atomic_iter::AtomicIter; it.counter().store(c); }
                          let mut m = Model { cur: c as u128, len, delivered: vec![false; MAXLEN], owned_from: 0, skipped_at: None }; run(it, &mut m, &ops, |v: &usize| *v, false); }
            "range" => { let s = num("s", 0); let e = num("e", 3); let len = e.saturating_sub(s); let it = (s..e).con_iter(); it.counter().store(c);
                         let mut m = Model { cur: c as u128, len, delivered: vec![false; MAXLEN], owned_from: 0, skipped_at: None };
                         run_range(it, &mut m, &ops, s); }
            // (the vector is grown by pushing, as in the Kani harnesses: its capacity may exceed its length)
            "vec" => { let len = num("len", 3).min(MAXLEN); let mut v: Vec<D> = Vec::new(); for i in 0..len { v.push(D(i)); } let it = v.into_con_iter(); it.counter().store(c);
                       let mut m = Model { cur: c as u128, len, delivered: vec![false; MAXLEN], owned_from: c.min(len), skipped_at: None }; run(it, &mut m, &ops, |v: &D| v.0, true); ledger(&m); }
            "array" => { let it = [D(0), D(1), D(2)].into_con_iter(); it.counter().store(c);
                         let mut m = Model { cur: c as u128, len: 3, delivered: vec![false; MAXLEN], owned_from: c.min(3), skipped_at: None }; run(it, &mut m, &ops, |v: &D| v.0, true); ledger(&m); }
            "iter" => { let len = num("len", 3).min(MAXLEN); let v: Vec<D> = (0..len).map(D).collect(); let it = v.into_iter().into_con_iter();
                        let mut m = Model { cur: 0, len, delivered: vec![false; MAXLEN], owned_from: 0, skipped_at: None };
                        let mut pre = vec![]; for _ in 0..c.min(16) { pre.push(Op::Next); }
                        pre.extend(ops.iter().cloned()); run(it, &mut m, &pre, |v: &D| v.0, true); ledger(&m); }
            k => panic!("unknown kind {}", k),
        }
    });
    match r {
        Ok(()) => Ok(()),
        Err(e) => Err(match e.downcast_ref::<Repro>() { Some(r) => r.0.clone(),
            None => format!("panic: {}", e.downcast_ref::<String>().cloned().or_else(|| e.downcast_ref::<&str>().map(|s| s.to_string())).unwrap_or_default()) }),
    }
}

// boundary enumeration of short sequential scenarios (used only to EXHIBIT a failing input for a violation the verifier reported)
fn sweep(kinds: &[&str], nowrap: bool) -> Option<(String, String)> {
    const M: usize = usize::MAX;
    let ns = [1usize, 2, 3, 4, M / 2, M - 1, M, 0];
    let cs = [0usize, 1, 2, 3, 4, M - 1, M];
    let mut pulls: Vec<String> = vec!["next".into(), "skip".into(), "len".into(), "values".into(), "ids".into(), "chunkfold:3:1".into(), "chunkfold:2:0".into()];
    for n in ns { for take in ["0", "1", "MAX"] { pulls.push(format!("chunk:{}:{}", n, take)); if n > 0 { pulls.push(format!("buffered:{}:{}", n, take)); } } }
    let fins = ["drop", "seq", "next,len,drop"];
    for kind in kinds {
        let shapes: Vec<String> = match *kind {
            "range" => { let mut v = vec![]; for s in [0usize, 1, 10, M - 3, M] { for l in [0usize, 1, 3] { v.push(format!("s={} e={}", s, s.saturating_add(l))); } } v.push(format!("s=5 e=2")); v.push(format!("s=0 e={}", M)); v }
            "array" => vec!["len=3".into()],
            _ => (0..4).map(|l| format!("len={}", l)).collect(),
        };
        for shape in &shapes { for c in cs { if *kind == "iter" && c > 4 { continue; }
            for p1 in &pulls { for p2 in pulls.iter().take(16).chain(std::iter::once(&String::new())) { for fin in fins {
                let ops = if p2.is_empty() { format!("{},{}", p1, fin) } else { format!("{},{},{}", p1, p2, fin) };
                // wrapped iterators allocate chunk_size slots for buffered pulls (documented): sizes <= 4096 only (C16's domain)
                if *kind == "iter" && ops.contains("buffered:") && ops.split(',').any(|o| o.starts_with("buffered:") && o.split(':').nth(1).map(|n| n.len() > 4).unwrap_or(false)) { continue; }
                let line = format!("kind={} {} c={} nowrap={} ops={}", kind, shape, c, if nowrap { 1 } else { 0 }, ops);
                let args: HashMap<String, String> = line.split_whitespace().filter_map(|a| a.split_once('=').map(|(k, v)| (k.to_string(), v.to_string()))).collect();
                if let Err(what) = run_scenario(&args) { return Some((line, what)); }
            } } }
        } }
    }
    None
}

fn main() {
    std::panic::set_hook(Box::new(|_| {}));
    let argv: Vec<String> = std::env::args().skip(1).collect();
    let args: HashMap<String, String> = argv.iter().filter_map(|a| a.split_once('=').map(|(k, v)| (k.to_string(), v.to_string()))).collect();
    if argv.first().map(|s| s == "sweep").unwrap_or(false) {
        let kinds: Vec<&str> = args.get("kinds").map(|s| s.split(',').collect()).unwrap_or(vec!["slice", "range", "vec", "array", "iter"]);
        match sweep(&kinds, args.get("nowrap").map(|x| x == "1").unwrap_or(true)) {
            Some((line, what)) => { println!("REPRODUCED: {}\nSCENARIO: {}", what, line); std::process::exit(1) }
            None => { println!("NOT-REPRODUCED (boundary sweep found no failing sequential scenario)"); }
        }
        return;
    }
    match run_scenario(&args) {
        Ok(()) => println!("NOT-REPRODUCED"),
        Err(what) => { println!("REPRODUCED: {}", what); std::process::exit(1) }
    }
}

// ranges: values are start + position; positions can be huge, so no per-position bookkeeping
fn run_range(it: ConIterOfRange<usize>, m: &mut Model, ops: &[Op], s: usize) {
    let mut it = Some(it);
    for op in ops {
        let i = match it.as_ref() { Some(i) => i, None => break };
        match op {
            Op::Next => { let (b, e) = m.pull(1); let r = i.next_id_and_value().map(|x| (x.idx, x.value));
                          if b < e { if r != Some((b, s + b)) { fail(format!("range next returned {:?}, the cursor model expects Some(({}, {}))", r, b, s + b)); } }
                          else if r.is_some() { fail(format!("range next returned {:?} although the cursor model is past the end", r)); } }
            Op::Chunk(n, _) | Op::Buffered(n, _) => {
                let (b, e) = m.pull(*n);
                let buffered = matches!(op, Op::Buffered(..));
                let mut buf = if buffered { Some(i.buffered_iter(*n)) } else { None };
                let r: Option<(usize, usize, Vec<usize>)> = if buffered { buf.as_mut().unwrap().next().map(|ch| (ch.begin_idx, ch.values.len(), ch.values.take(4).collect())) }
                                                            else { i.next_chunk(*n).map(|ch| (ch.begin_idx, ch.values.len(), ch.values.take(4).collect())) };
                if b < e { let want: Vec<usize> = (b..e).take(4).map(|p| s + p).collect();
                           if r != Some((b, e - b, want.clone())) { fail(format!("range chunk returned {:?}, the cursor model expects begin {} len {} first values {:?}", r, b, e - b, want)); } }
                else if r.is_some() { fail(format!("range chunk returned {:?} although the cursor model is past the end", r)); }
            }
            Op::Skip => { i.skip_to_end(); if m.cur < m.len as u128 { m.cur = m.len as u128; } if i.has_more() != HasMore::No { fail("has_more is not No after skip_to_end".into()); } }
            Op::Len => { let rem = m.remaining(); if i.try_get_len() != Some(rem) { fail(format!("try_get_len = {:?} but {} elements remain", i.try_get_len(), rem)); } }
            Op::Seq => { let k = if m.cur < m.len as u128 { m.cur as usize } else { m.len }; let r = it.take().unwrap().into_seq_iter();
                         if k < m.len { if r.start != s + k || r.end != s + m.len { fail(format!("into_seq_iter = {:?}, expected {}..{}", r, s + k, s + m.len)); } }
                         else if r.start < r.end { fail(format!("into_seq_iter = {:?} although nothing remains", r)); } }
            Op::DropIt => { drop(it.take()); }
            // the for-loop adaptors / internal iteration over a range: one position each, value = start + position
            Op::Values | Op::Ids => { let (b, e) = m.pull(1);
                let r = if matches!(op, Op::Values) { i.values().next().map(|v| (b, v)) } else { i.ids_and_values().next() };
                if b < e { if r != Some((b, s + b)) { fail(format!("the for-loop adaptor delivered {:?}, the cursor model expects ({}, {})", r, b, s + b)); } }
                else if r.is_some() { fail(format!("the for-loop adaptor delivered {:?} although the cursor model is past the end", r)); } }
            Op::ChunkFold(n, _) => { let (b, e) = m.pull(*n);
                let r = i.next_chunk(*n).map(|c| (c.begin_idx, c.values.fold((0usize, 0u128), |(k, acc), v| (k + 1, acc + v as u128))));
                let want: u128 = (b..e.min(b.saturating_add(8))).map(|p| (s + p) as u128).sum();
                if b < e { match r { Some((bi, (k, acc))) => { if bi != b || k != e - b || (e - b <= 8 && acc != want) { fail(format!("range chunk folds to (begin {}, count {}, sum {}), the cursor model expects begin {} count {}", bi, k, acc, b, e - b)); } }
                                     None => fail(format!("range chunk pull reported the end although position {} is undelivered", b)) } }
                else if r.is_some() { fail("range chunk returned a chunk although the cursor model is past the end".into()); } }
        }
    }
}
