"""Decide one property: run its Verus units and Kani harnesses, report named failed obligations, write evidence."""
import hashlib
import json
import os
import re
import sys
import threading
import time

import common
import kunit
import vunit
from common import EVIDENCE, KNOWN, REPLAYS, REPO, VERIF, Undecided, write_json

# level claimed per property (MANIFEST.json must agree)
LEVEL = {
    "C01": "proof", "C02": "proof", "C03": "proof", "C04": "proof", "C05": "proof", "C06": "proof", "C07": "proof",
    "C09": "proof", "C10": "proof", "C11": "proof", "C16": "proof", "C17": "proof", "C19": "proof",
    "C08": "model_checking", "C12": "model_checking", "C13": "model_checking", "C15": "model_checking",
}
NOT_APPLICABLE = {"C14", "C18"}

ASSUMPTIONS = {
    "A1": "A1 trusted: C11 semantics of ONE atomic location (total modification order; an RMW returns its mo-predecessor's value; coherence); program order / returns-before-starts embeds into that order",
    "A2": "A2 trusted: the ticket-protocol lemma is proved over interleavings (SC); the step from the checked ordering discipline (acquire on admission, release on publication) to SC-for-this-protocol is the standard message-passing argument, not mechanised",
    "A3": "A3 trusted: Verus 0.2026.09.13 + Z3, vstd specifications of usize::cmp/min/max/saturating_add, Option::map/unwrap_or, <[T]>::get/len/iter/index(Range), Iterator::skip",
    "A4": "A4 trusted: Kani 0.68 / CBMC 6.11 / CaDiCaL; Kani's model of alloc; monomorphic instances (T = u8 / usize / drop-counting D, Idx = usize) stand for all T",
    "A5": "A5 trusted: the extractor (tools/extract) and its erasure check; struct layouts in the templates are compared with the repo's on every run",
    "A6": "A6 assumed: wrapped iterators are fused and do not panic; element Clone/Drop do not panic; clients do not call the public low-level AtomicIter::get / counter().store directly",
    "A7": "A7 trusted: Rust's aliasing rules for &[T] (shared => immutable)",
    "NOWRAP": "no-wrap regime (as the property states): the cumulative requested count stays below usize::MAX, i.e. the position counter does not wrap",
    "MACHINE": "machine arithmetic: Verus treats usize as bounded integers with an overflow obligation on every + and -; Kani uses 64-bit vectors with overflow checks on",
}
PROP_ASSUME = {
    "C01": ["A1", "A3", "A4", "A5", "A6", "NOWRAP", "MACHINE"], "C02": ["A1", "A3", "A4", "A5", "A6", "MACHINE"],
    "C03": ["A1", "A3", "A4", "A5", "MACHINE"], "C04": ["A1", "A3", "A4", "A5", "NOWRAP"], "C05": ["A1", "A3", "A4", "A5", "A6", "NOWRAP"],
    "C06": ["A1", "A3", "A4", "A5", "A6"], "C07": ["A1", "A2", "A3", "A4", "A5", "A6"], "C08": ["A1", "A4", "A6", "NOWRAP"],
    "C09": ["A1", "A3", "A4", "A5", "A6"], "C10": ["A1", "A3", "A4", "A5", "NOWRAP"], "C11": ["A1", "A3", "A4", "A5", "A6"],
    "C12": ["A1", "A4", "A6"], "C13": ["A4", "A6"], "C15": ["A4", "A6", "NOWRAP"], "C16": ["A3", "A4", "A5", "MACHINE"],
    "C17": ["A3", "A4", "A5", "MACHINE"], "C19": ["A1", "A3", "A4", "A5", "A7"],
}


def load_known():
    if not os.path.exists(KNOWN):
        return []
    return json.load(open(KNOWN)).get("findings", [])


def known_match(prop, oid, known):
    for k in known:
        if k.get("status") != "open" or k.get("property") != prop:
            continue
        pats = k.get("obligations", [])
        for p in pats:
            if oid == p or (p.endswith("*") and oid.startswith(p[:-1])):
                return k
    return None


def kani_obligations(h, prop):
    """Distinct tagged assertion messages of a harness (from its source) that carry `prop`, plus its safety obligation."""
    src = open(os.path.join(common.KANI_DIR, h.file)).read()
    # body of this harness: from its @harness line to the next @harness line
    m = re.search(r"@harness\s+name=%s\b" % re.escape(getattr(h, "fn_name", h.name)), src)
    body = src[m.end():] if m else ""
    n = re.search(r"//\s*@harness\s", body)
    if n:
        body = body[:n.start()]
    # helper functions shared inside the file may also carry tagged asserts: attribute them when the harness calls them
    out = {}
    for mm in re.finditer(r'"\[((?:C\d{2,3}[ ,]*)+)([\w\-\.]*)\]', body):
        props = re.findall(r"C\d{2,3}", mm.group(1))
        if prop in props or (prop == "C17" and h.group == "nodebug"):
            out["kani:%s:[%s]" % (h.name, mm.group(2))] = True
    for helper in sorted(set(re.findall(r"\b((?:chk|run)_\w+)\(", body))):
        hm = re.search(r"fn %s\b.*?\n    \}" % re.escape(helper), src, re.S)
        if hm:
            for mm in re.finditer(r'"\[((?:C\d{2,3}[ ,]*)+)([\w\-\.]*)\]', hm.group(0)):
                props = re.findall(r"C\d{2,3}", mm.group(1))
                if prop in props:
                    out["kani:%s:[%s]" % (h.name, mm.group(2))] = True
    out["kani:%s:safety" % h.name] = True
    return list(out)


def decide(prop, tier, seed):
    t0 = time.time()
    if prop in NOT_APPLICABLE or prop not in LEVEL:
        print("property %s is not claimed (not applicable to contract-based deductive verification; see DESIGN.md)" % prop)
        return 2
    known = load_known()
    undecided = []
    failures = []      # dict(oid, engine, output, harness?)
    obligations = {}   # oid -> dict(engine, status)
    bounded = []       # bounded stand-ins (never counted as proved)
    verus_info = []
    kani_info = []
    trusted = set()
    functions = []

    units = vunit.units_for(prop)
    hs_all = kunit.load_harnesses()
    hs = [h for h in hs_all if prop in h.props and (tier == "thorough" or h.tier == "quick")]

    vres_box = []
    kres_box = []

    def run_v():
        try:
            vres_box.append(vunit.run_units(units, tier, seed))
        except Undecided as e:
            undecided.append("verus: %s" % e)
            vres_box.append([])

    def run_k():
        try:
            kres_box.append(kunit.run_kani(hs, jobs=12))
        except Undecided as e:
            undecided.append("kani: %s" % e)
            kres_box.append(({}, []))
        except Exception as e:  # tool crash
            undecided.append("kani crashed: %r" % e)
            kres_box.append(({}, []))

    tv = threading.Thread(target=run_v)
    tk = threading.Thread(target=run_k)
    tv.start(); tk.start(); tv.join(); tk.join()

    smt_ms = 0
    for (u, res, tw) in vres_box[0]:
        if res.get("undecided"):
            undecided.append("verus unit %s: %s" % (res.get("unit"), res["undecided"]))
            continue
        if tw and tw.get("undecided"):
            undecided.append("verus unit %s: %s" % (u.name, tw["undecided"]))
            continue
        smt_ms += res.get("smt_ms", 0)
        obs = u.obligations()
        mine = {oid for oid, ps in obs.items() if prop in ps}
        for oid in mine:
            st = "failed" if oid in res["failed"] else "discharged"
            # the counter's obligations appear in every unit that includes common.vrs: keep one record
            if oid in obligations and obligations[oid]["status"] == "failed":
                continue
            obligations[oid] = {"engine": "verus/z3", "status": st}
            if st == "failed" and not any(f["oid"] == oid for f in failures):
                failures.append({"oid": oid, "engine": "verus", "output": "\n".join(res["failed"][oid])[:4000], "unit": u.name})
        # failed obligations that Verus reports in this unit but whose tag set does not include prop are not ours
        verus_info.append({"unit": u.name, "cmd": res["cmd"], "wall_s": res["wall_s"], "verified_functions": res["verified"],
                           "smt_ms": res.get("smt_ms"), "vacuity_twins": tw, "vacuity_canaries": res.get("canaries"),
                           "extraction": {"pastes": len(u.map["pastes"]), "struct_checks": len(u.map.get("structs", [])),
                                          "edits": sum(len(p["edits"]) for p in u.map["pastes"])}})
        for f in res.get("functions", []):
            if f.get("repo"):
                functions.append({"function": f["function"], "repo": f["repo"], "body_sha256": f["body_sha256"], "ok": f["ok"], "ms": f["ms"], "back_end": "verus/z3"})
        for t in u.trusted():
            trusted.add(t)

    kres, kcmds = kres_box[0]
    kani_time = 0.0
    for h in hs:
        r = kres.get(h.name)
        if r is None:
            continue
        if r["status"] == "undecided":
            undecided.append("kani harness %s: %s\n%s" % (h.name, r.get("reason", "no verdict"), r.get("output", "")[-1500:]))
            continue
        kani_time += r.get("time_s") or 0.0
        obs = kani_obligations(h, prop)
        failed_here = {}
        for fc in r.get("failed_checks", []):
            ps, tag = kunit.props_of_failed_check(fc["description"], h)
            if h.group == "nodebug":
                # the same harness passes in the default (debug) build: any failure here is a debug / release divergence
                ps = list(ps) + ["C17"]
            if prop not in ps:
                continue
            oid = "kani:%s:[%s]" % (h.name, tag) if TAGGED(fc["description"]) else "kani:%s:safety" % h.name
            failed_here.setdefault(oid, []).append("%s  %s" % (fc["description"], fc["location"]))
        cov = r.get("covers")
        if cov and cov[0] < cov[1] and r["status"] == "success":
            undecided.append("kani harness %s: only %d of %d cover points reachable (vacuity guard)" % (h.name, cov[0], cov[1]))
            continue
        if h.expect == "panic":
            # #[kani::should_panic]: SUCCESSFUL iff the call panics (and nothing else fails)
            oid = "kani:%s:[documented-panic]" % h.name
            ok = r["status"] == "success"
            obligations[oid] = {"engine": "kani/cbmc", "status": "discharged" if ok else "failed", "harness": h.name}
            if not ok:
                failures.append({"oid": oid, "engine": "kani", "output": "should_panic harness %s did not panic as documented (or failed otherwise): %s" % (h.name, "; ".join(fc["description"] for fc in r.get("failed_checks", []))[:600]), "harness": h.name})
            kani_info.append({"harness": h.name, "kind": h.kind, "bound": h.bound, "status": r["status"], "time_s": r.get("time_s"), "checks": r.get("checks"), "covers": r.get("covers"), "stubs": r.get("stubs")})
            continue
        if h.expect == "fail":
            # vacuity canary harness: must fail
            if r["status"] != "failed":
                undecided.append("kani canary %s verified although it must fail" % h.name)
            continue
        for oid in obs:
            st = "failed" if oid in failed_here else "discharged"
            rec = {"engine": "kani/cbmc", "status": st, "harness": h.name}
            if h.kind == "complete":
                obligations[oid] = rec
            else:
                rec["bound"] = h.bound
                bounded.append(dict(rec, obligation=oid))
        for oid, outs in failed_here.items():
            if oid not in obs:
                (obligations if h.kind == "complete" else {}).setdefault(oid, {"engine": "kani/cbmc", "status": "failed", "harness": h.name})
                if h.kind != "complete":
                    bounded.append({"engine": "kani/cbmc", "status": "failed", "harness": h.name, "obligation": oid, "bound": h.bound})
            failures.append({"oid": oid, "engine": "kani", "output": "\n".join(outs)[:4000], "harness": h.name})
        kani_info.append({"harness": h.name, "kind": h.kind, "bound": h.bound, "status": r["status"], "time_s": r.get("time_s"),
                          "checks": r.get("checks"), "covers": r.get("covers"), "stubs": r.get("stubs")})
        for s in r.get("stubs", []):
            trusted.add("kani stub: %s" % s)

    # rule E11: a debug_assert! that Verus cannot prove under the havoc environment is a violation only when a Kani harness on the
    # compiled code fails as well in this run (the assertion may rest on a type invariant the unit does not state): else undecided
    if not any(f["engine"] == "kani" for f in failures):
        for f in [f for f in failures if f["oid"].endswith(":debug-assert")]:
            failures.remove(f)
            undecided.append("verus obligation %s: a debug_assert! in the pasted body is not provable in the unit and no Kani harness reproduces a failure: undecided\n%s" % (f["oid"], f["output"][:1200]))
    # ------------------------------------------------------------------ verdict
    wall = time.time() - t0
    new = []
    knowns = []
    for f in failures:
        k = known_match(prop, f["oid"], known)
        if k:
            knowns.append((k, f))
        else:
            new.append(f)

    n_ob = len(obligations)
    n_dis = len([o for o in obligations.values() if o["status"] == "discharged"])
    samples = []
    for oid, o in list(obligations.items())[:6]:
        samples.append({"obligation": oid, "back_end": o["engine"], "status": o["status"]})
    level = LEVEL[prop]
    cov = {
        "obligations": n_ob, "discharged": n_dis,
        "checker_cmd": "; ".join([v["cmd"] for v in verus_info] + [c["cmd"] for c in kcmds])[:6000] or "none",
        "trusted_base": sorted(trusted),
        "samples": samples or [{"note": "no obligation generated"}],
        "functions_under_contract": functions,
        "verus_units": verus_info,
        "kani_harnesses": kani_info,
        "bounded_checks": bounded,
        "solver_time_s": {"verus_smt": round(smt_ms / 1000.0, 3), "kani_cbmc": round(kani_time, 1)},
        "failed_obligations": [f["oid"] for f in failures],
        "known_findings_observed": [k["id"] for (k, _) in knowns],
        "undecided": undecided,
        "repo_head": common.repo_head(), "repo_dirty": common.repo_dirty(),
        "explanation": "contract-based deductive verification: per-call contracts on the real function bodies (Verus on bodies extracted verbatim every run; Kani on the crate compiled in place) + history lemmas over those contracts",
    }
    if level == "model_checking":
        evals = len(kani_info)
        nontriv = len([k for k in kani_info if (k.get("checks") or (0, 0))[1] > 0 and (not k.get("covers") or k["covers"][0] == k["covers"][1])])
        cov.update({"evaluations": max(evals, 0), "distinct_nontrivial": nontriv,
                    "rule": "one evaluation = one Kani harness (a bounded model check of a contract on the real crate); non-trivial = it has reachable checks and every kani::cover! point in it was satisfied",
                    "exhaustive": False})
        cov["samples"] = [{"harness": k["harness"], "bound": k["bound"], "status": k["status"], "checks": k.get("checks")} for k in kani_info[:6]] or cov["samples"]
    ev = {
        "property_id": prop, "tier": tier, "seed": seed, "level": level, "coverage": cov,
        "assumptions": [ASSUMPTIONS[a] for a in PROP_ASSUME.get(prop, [])],
        "wall_s": round(wall, 1), "violations": len(new),
    }
    write_json(os.path.join(EVIDENCE, prop + ".json"), ev)

    for (k, f) in knowns:
        print("KNOWN-FINDING: property=%s %s [%s]" % (prop, k["what"], f["oid"]))
    if new:
        import replay
        for k, f in enumerate(new):
            # concrete replays are expensive (Kani playback + native builds): the first two violations get one, the rest
            # name their obligation and carry the verifier output
            path, found = replay.record(prop, f, tier, concrete=(k < 2))
            tail = "" if found else " no-failing-input-found"
            print("VIOLATION property=%s replay=%s%s" % (prop, path, tail))
            print("  failed obligation: %s (%s)" % (f["oid"], f["engine"]))
            for l in f["output"].split("\n")[:12]:
                print("    " + l)
        return 1
    if undecided:
        for u in undecided:
            print("UNDECIDED property=%s %s" % (prop, u))
        return 2
    if n_ob == 0 and not bounded:
        print("UNDECIDED property=%s no obligation was generated (vacuity guard)" % prop)
        return 2
    print("OK property=%s tier=%s obligations=%d discharged=%d bounded_checks=%d verus_smt=%.2fs kani=%.1fs wall=%.1fs" % (
        prop, tier, n_ob, n_dis, len(bounded), smt_ms / 1000.0, kani_time, wall))
    return 0


def decide_all(tier):
    """Self-test mode (`./check ALL`): every Verus unit and every Kani harness once; prints every failed obligation with the
    properties it serves and every undecided item.  Not a property check (writes no evidence)."""
    import concurrent.futures
    known = load_known()
    units = sorted(fn[:-4] for fn in os.listdir(common.CONTRACTS) if fn.endswith(".vrs") and "verus! {" in open(os.path.join(common.CONTRACTS, fn)).read())
    hs = [h for h in kunit.load_harnesses() if tier == "thorough" or h.tier == "quick"]
    failed, undecided = [], []
    vres = vunit.run_units(units, tier, 0)
    for (u, res, tw) in vres:
        if res.get("undecided"):
            undecided.append("verus unit %s: %s" % (res.get("unit"), res["undecided"][:300]))
            continue
        if tw and tw.get("undecided"):
            undecided.append("verus unit %s: %s" % (u.name, tw["undecided"]))
        obs = u.obligations()
        for oid in res["failed"]:
            failed.append((oid, sorted(obs.get(oid, []))))
    try:
        kres, _ = kunit.run_kani(hs, jobs=14)
    except Undecided as e:
        undecided.append("kani: %s" % e)
        kres = {}
    for h in hs:
        r = kres.get(h.name)
        if r is None:
            continue
        if r["status"] == "undecided":
            undecided.append("kani harness %s: %s %s" % (h.name, r.get("reason", ""), (r.get("output", "") or "")[-300:].replace("\n", " | ")))
            continue
        if h.expect == "panic":
            if r["status"] != "success":
                failed.append(("kani:%s:[documented-panic]" % h.name, h.props))
            continue
        cov = r.get("covers")
        if cov and cov[0] < cov[1] and r["status"] == "success":
            undecided.append("kani harness %s: only %d of %d cover points reachable" % (h.name, cov[0], cov[1]))
        for fc in r.get("failed_checks", []):
            ps, tag = kunit.props_of_failed_check(fc["description"], h)
            if h.group == "nodebug":
                ps = list(ps) + ["C17"]
            oid = "kani:%s:[%s]" % (h.name, tag) if TAGGED(fc["description"]) else "kani:%s:safety" % h.name
            failed.append((oid, ps))
    if not any(oid.startswith("kani:") for oid, _ in failed):
        for x in [x for x in failed if x[0].endswith(":debug-assert")]:
            failed.remove(x)
            undecided.append("verus obligation %s: debug_assert! not provable in the unit, no Kani harness fails (rule E11): undecided" % x[0])
    seen = set()
    nviol = 0
    for oid, ps in failed:
        if oid in seen:
            continue
        seen.add(oid)
        if any(known_match(p, oid, known) for p in ps):
            print("KNOWN-FINDING %s %s" % (oid, ",".join(ps)))
        else:
            nviol += 1
            print("FAILED %s %s" % (oid, ",".join(ps)))
    for u in undecided:
        print("UNDECIDED %s" % u)
    print("ALL tier=%s units=%d harnesses=%d failed=%d undecided=%d" % (tier, len(units), len(hs), nviol, len(undecided)))
    return 1 if nviol else (2 if undecided else 0)


def TAGGED(desc):
    return kunit.TAGMSG_RE.search(desc) is not None


def list_all():
    hs = kunit.load_harnesses()
    for p in sorted(LEVEL):
        print(p, LEVEL[p], "verus units:", vunit.units_for(p), "kani:", [h.name for h in hs if p in h.props])
    return 0
