"""Replay files: every violation names the failed obligation and carries the verifier's output; where a concrete
counterexample is available (Kani concrete playback on the paired harness) it is replayed against the real crate."""
import hashlib
import json
import os
import subprocess
import sys

import common
from common import REPLAYS, write_json


def record(prop, failure, tier, concrete=True):
    os.makedirs(REPLAYS, exist_ok=True)
    h = hashlib.sha256((prop + "|" + failure["oid"]).encode()).hexdigest()[:10]
    path = os.path.join(REPLAYS, "%s-%s.json" % (prop, h))
    rec = {
        "property": prop, "failed_obligation": failure["oid"], "verifier": failure["engine"],
        "verifier_output": failure["output"], "repo_head": common.repo_head(), "repo_dirty": common.repo_dirty(), "tier": tier,
        "concrete_input": None, "replayed_on_real_code": None,
    }
    found = False
    try:
        if not concrete or os.environ.get("VERIF_NO_CONCRETE") or os.path.exists("/tmp/seed/NO_CONCRETE"):
            raise ImportError()   # (debug switch used while batch-evaluating seeded changes: skip the expensive concrete replay)
        import concrete as concrete_mod
        ci = concrete_mod.find_and_replay(prop, failure)
        if ci:
            rec["concrete_input"] = ci.get("input")
            rec["replayed_on_real_code"] = ci.get("replay")
            found = bool(ci.get("replay", {}).get("reproduced"))
    except ImportError:
        pass
    except Exception as e:  # never let the replay machinery hide the violation
        rec["replay_error"] = repr(e)
    if not found:
        rec["note"] = "no-failing-input-found: the violation is the named obligation, which is discharged on the unchanged tree and fails on this one"
    write_json(path, rec)
    return path, found


def main(args):
    if not args:
        print("usage: check replay <replay.json>")
        return 2
    rec = json.load(open(args[0]))
    print(json.dumps({k: rec[k] for k in ("property", "failed_obligation", "verifier", "concrete_input", "replayed_on_real_code")}, indent=1))
    print(rec["verifier_output"])
    try:
        import concrete
        if rec.get("concrete_input"):
            r = concrete.replay_input(rec["concrete_input"])
            print(json.dumps(r, indent=1))
            return 1 if r.get("reproduced") else 0
    except ImportError:
        pass
    return 0
