"""Kani side: the real crate compiled in place (scratch copy of /repo's working tree), harness files injected with
`include!`, nothing dropped or rewritten.  Parses per-harness results and maps failed checks to properties."""
import os
import re
import shutil
import subprocess

from common import KANI_DIR, REPO, Undecided, env_offline, scratch_root, now

HARNESS_RE = re.compile(r"^\s*//\s*@harness\s+(.*)$")
TAGMSG_RE = re.compile(r"\[((?:C\d{2,3}[ ,]*)+)([\w\-\.]*)\]")


class Harness:
    def __init__(self, name, props, tier, kind, bound, group, file, module, expect):
        self.name = name
        self.props = props
        self.tier = tier          # quick | thorough
        self.kind = kind          # complete | bounded
        self.bound = bound
        self.group = group        # default | leak | ...
        self.file = file
        self.module = module
        self.expect = expect      # pass | fail (canary: must fail)
        self.fn_name = name


def load_harnesses():
    hs = []
    for fn in sorted(os.listdir(KANI_DIR)):
        if not fn.endswith(".rs"):
            continue
        path = os.path.join(KANI_DIR, fn)
        module = None
        for l in open(path):
            m = re.match(r"^\s*//\s*@module\s+(\S+)", l)
            if m:
                module = m.group(1)
            m = HARNESS_RE.match(l)
            if m:
                kv = {}
                for part in re.findall(r'(\w+)=("[^"]*"|\S+)', m.group(1)):
                    kv[part[0]] = part[1].strip('"')
                for g in kv.get("group", "default").split(","):
                    # a harness listed in several groups is run once per group; outside the default group it is reported as name@group
                    h = Harness(kv["name"] if g == "default" else "%s@%s" % (kv["name"], g), kv.get("props_" + g, kv.get("props", "")).split(","), kv.get("tier", "quick"),
                                kv.get("kind", "bounded"), kv.get("bound", "") + ("" if g == "default" else " [build: %s]" % GROUP_NOTE.get(g, g)), g, fn, module, kv.get("expect", "pass"))
                    h.fn_name = kv["name"]
                    hs.append(h)
    return hs


_scratch_repo = None


def scratch_repo(repo=REPO, only_files=None):
    """Copy of the working tree with the harness includes appended.  Only additions; the list is returned.
    only_files: inject just these harness files (plus common.rs), so that a change which stops an unrelated harness file
    from compiling cannot make this property undecided."""
    global _scratch_repo
    if _scratch_repo is not None:
        return _scratch_repo
    dst = os.path.join(scratch_root(), "kani_repo")
    shutil.copytree(repo, dst, ignore=shutil.ignore_patterns("target", ".git"), symlinks=True)
    os.makedirs(os.path.join(dst, ".cargo"), exist_ok=True)
    with open(os.path.join(dst, ".cargo", "config.toml"), "a") as f:
        f.write("\n[net]\noffline = true\n")
    additions = []
    for fn in sorted(os.listdir(KANI_DIR)):
        if not fn.endswith(".rs"):
            continue
        if only_files is not None and fn != "common.rs" and fn not in only_files:
            continue
        path = os.path.join(KANI_DIR, fn)
        module = None
        for l in open(path):
            m = re.match(r"^\s*//\s*@module\s+(\S+)", l)
            if m:
                module = m.group(1)
                break
        if module is None:
            continue
        target = os.path.join(dst, module)
        if not os.path.exists(target):
            raise Undecided("LOST-ANCHOR module file %s (for kani/%s)" % (module, fn))
        line = '\n#[cfg(kani)]\ninclude!("%s");\n' % path
        if module.endswith("lib.rs"):
            src = open(target).read()
            # crate-level attributes must come first: insert the feature gate at the very top
            head = "#![cfg_attr(kani, feature(allocator_api))]\n"
            open(target, "w").write(head + src + line)
            additions.append({"file": module, "added": [head.strip(), line.strip()]})
        else:
            with open(target, "a") as f:
                f.write(line)
            additions.append({"file": module, "added": [line.strip()]})
    _scratch_repo = (dst, additions)
    return _scratch_repo


def ensure_injected(fn):
    """Inject one more harness file into the existing scratch copy (used by the replay machinery for paired harnesses)."""
    dst, additions = scratch_repo()
    if any(fn in " ".join(a["added"]) for a in additions):
        return
    path = os.path.join(KANI_DIR, fn)
    module = None
    for l in open(path):
        m = re.match(r"^\s*//\s*@module\s+(\S+)", l)
        if m:
            module = m.group(1)
            break
    if module is None or module.endswith("lib.rs"):
        return
    line = '\n#[cfg(kani)]\ninclude!("%s");\n' % path
    with open(os.path.join(dst, module), "a") as f:
        f.write(line)
    additions.append({"file": module, "added": [line.strip()]})


GROUP_NOTE = {"nodebug": "debug assertions compiled out (CARGO_PROFILE_DEV_DEBUG_ASSERTIONS=false): the release half of C17", "leak": "CBMC --memory-leak-check"}
GROUP_ENV = {"nodebug": {"CARGO_PROFILE_DEV_DEBUG_ASSERTIONS": "false"}}
GROUP_FLAGS = {
    "default": [],
    "leak": ["--cbmc-args", "--memory-leak-check"],
    "nodebug": [],
}


def run_kani(harnesses, jobs=16, timeout_s=3600, playback=False, harness_timeout_s=900):
    """Run the given harnesses (one cargo kani invocation per flag group).  Returns {name: result}."""
    if not harnesses:
        return {}, []
    dst, additions = scratch_repo(only_files={h.file for h in harnesses})
    results = {}
    cmds = []
    groups = {}
    for h in harnesses:
        groups.setdefault(h.group, []).append(h)
    for g, hs in groups.items():
        cmd = ["cargo", "kani", "-Z", "function-contracts", "-Z", "stubbing", "-Z", "unstable-options", "--harness-timeout", "%ds" % harness_timeout_s,
               "--output-format", "terse", "-j", str(min(jobs, len(hs))), "--exact"]
        if playback:
            cmd += ["-Z", "concrete-playback", "--concrete-playback=print"]
        for h in hs:
            cmd += ["--harness", full_name(h)]
        cmd += GROUP_FLAGS[g]
        t0 = now()
        import signal
        genv = dict(env_offline(), **GROUP_ENV.get(g, {}))
        if g in GROUP_ENV:
            genv["CARGO_TARGET_DIR"] = os.path.join(dst, "target_" + g)
        proc = subprocess.Popen(cmd, cwd=dst, env=genv, stdout=subprocess.PIPE, stderr=subprocess.STDOUT, text=True, start_new_session=True)
        try:
            out, _ = proc.communicate(timeout=timeout_s)
        except subprocess.TimeoutExpired:
            try:
                os.killpg(proc.pid, signal.SIGKILL)
            except Exception:
                pass
            out, _ = proc.communicate()
            out = (out or "") + "\nTIMEOUT after %ds\n" % timeout_s
        wall = now() - t0
        cmds.append({"cmd": " ".join(cmd), "wall_s": round(wall, 1), "group": g})
        parsed = parse_terse(out)
        for h in hs:
            fn = full_name(h)
            p = parsed.get(fn)
            if p is None:
                # compile error or crash
                tail = "\n".join(out.strip().split("\n")[-25:])
                results[h.name] = {"status": "undecided", "reason": "no result for harness (build error / crash / timeout)", "output": tail}
            else:
                results[h.name] = p
    return results, cmds


def full_name(h):
    # module path of the file the harness is included into + the harness module + fn
    mod = h.module[len("src/"):-len(".rs")].replace("/", "::")
    if mod == "lib":
        return "%s::%s" % (h.file[:-3].replace("-", "_") + "_k", h.fn_name)
    return "%s::%s::%s" % (mod, "vk_" + h.file[:-3], h.fn_name)


def parse_terse(out):
    """terse -j output -> {harness: {status, failed_checks:[(desc, file, line)], time_s, covers:(sat,total), stubs:[...]}}"""
    res = {}
    cur_by_thread = {}
    lines = out.split("\n")
    i = 0
    cur = None
    while i < len(lines):
        l = lines[i]
        m = re.match(r"^(?:Thread (\d+): )?Checking harness (\S+?)\.\.\.", l)
        if m:
            t = m.group(1) or "0"
            cur_by_thread[t] = m.group(2)
            res.setdefault(m.group(2), {"status": "undecided", "failed_checks": [], "time_s": None, "covers": None, "stubs": [], "playback": []})
            i += 1
            continue
        m = re.match(r"^(?:Thread (\d+): )?\s+- Stub: (.*)$", l)
        if m:
            t = m.group(1) or "0"
            if t in cur_by_thread:
                res[cur_by_thread[t]]["stubs"].append(m.group(2).strip())
            i += 1
            continue
        m = re.match(r"^Thread (\d+): ?$", l)
        if m and i + 1 < len(lines) and ("VERIFICATION RESULT" in lines[i + 1] or lines[i + 1].startswith("CBMC")):
            cur = cur_by_thread.get(m.group(1))
            i += 1
            continue
        if l.startswith("VERIFICATION RESULT") and cur is None and len(cur_by_thread) == 1:
            cur = list(cur_by_thread.values())[0]
        if cur is not None:
            r = res[cur]
            m = re.match(r"^Failed Checks: (.*)$", l)
            if m:
                desc = m.group(1).strip().strip('"')
                loc = ""
                if i + 1 < len(lines) and lines[i + 1].strip().startswith("File:"):
                    loc = lines[i + 1].strip()
                r["failed_checks"].append({"description": desc, "location": loc})
            m = re.match(r"^\s*\*\* (\d+) of (\d+) cover properties satisfied", l)
            if m:
                r["covers"] = (int(m.group(1)), int(m.group(2)))
            m = re.match(r"^\s*\*\* (\d+) of (\d+) failed", l)
            if m:
                r["checks"] = (int(m.group(1)), int(m.group(2)))
            if l.startswith("VERIFICATION:- SUCCESSFUL"):
                r["status"] = "success"
            elif l.startswith("VERIFICATION:- FAILED"):
                r["status"] = "failed"
                # a solver timeout / crash is not a verdict: look ahead for CBMC's own message
                nxt = " ".join(lines[i:i + 3])
                if "CBMC timed out" in nxt or (not r.get("checks") and not r["failed_checks"]):
                    r["status"] = "undecided"
                    r["reason"] = "CBMC timed out or crashed (harness timeout); no verdict"
                    cur = None
            m = re.match(r"^Verification Time: ([\d\.]+)s", l)
            if m:
                r["time_s"] = float(m.group(1))
                cur = None
        i += 1
    # concrete playback tests are printed after "Concrete playback unit test for `harness`:"
    for m in re.finditer(r"Concrete playback unit test for `([^`]+)`:\s*```\s*(.*?)```", out, re.S):
        for k in res:
            if k.endswith(m.group(1)) or m.group(1).endswith(k.split("::")[-1]):
                res[k]["playback"].append(m.group(2))
    return res


def props_of_failed_check(desc, harness):
    """A tagged assertion message '[C03 nonempty] ...' names its properties; anything else (overflow, bounds,
    pointer checks, unwinding ...) is attributed to the harness' property list."""
    m = TAGMSG_RE.search(desc)
    if m:
        return re.findall(r"C\d{2,3}", m.group(1)), (m.group(2) or "clause")
    low = desc.lower()
    if "unwinding assertion" in low:
        return list(harness.props), "unwinding"
    if "overflow" in low:
        # an arithmetic overflow is a boundary-arithmetic matter whatever else the harness serves
        return sorted(set(harness.props) | {"C16"}), "overflow"
    return list(harness.props), "safety"
