"""Verus units: extract real bodies into a contract template, verify, map verifier errors to named obligations."""
import json
import os
import re
import shutil
import subprocess
import threading

from common import (CONTRACTS, EXTRACT_BIN, REPO, Undecided, ensure_extractor, scratch_root, sha256_text, now)

TAG_RE = re.compile(r"//\s*\[([\w\-]+)\]((?:\s+C\d{2,3})+)\s*$")
FN_RE = re.compile(r"^\s*(?:pub(?:\([a-z]+\))?\s+)?(?:(?:open|closed)\s+)?(?:(proof|spec|exec)\s+)?(?:unsafe\s+)?fn\s+(\w+)")
MOD_RE = re.compile(r"^\s*(?:pub\s+)?mod\s+(\w+)\s*\{")
SAFETY_RE = re.compile(r"^\s*//@safety((?:\s+C\d{2,3})+)\s*$")

SAFETY_CLASSES = [
    ("possible arithmetic underflow/overflow", "overflow"),
    ("possible division by zero", "divzero"),
    ("precondition not satisfied", "precondition"),
    ("assertion failed", "assert"),
    ("invariant not satisfied", "loop-invariant"),
    ("decreases not satisfied", "termination"),
    ("could not prove termination", "termination"),
    ("loop must have a decreases clause", "termination"),
    ("recursive function must have a decreases clause", "termination"),
    ("index out of bounds", "bounds"),
]
# overflow in a verbatim body is the boundary-arithmetic / debug==release obligation
OVERFLOW_PROPS = ["C16", "C17"]


def impl_type(header):
    """`impl<..> [Trait<..> for] Type<..> {`  ->  Type"""
    out = []
    d = 0
    for ch in header:
        if ch == "<":
            d += 1
        elif ch == ">":
            d -= 1
        elif d == 0:
            out.append(ch)
    flat = "".join(out).replace("{", " ").split()
    # flat: ["impl", ("Trait", "for",)? "Type", ...where...]
    if "for" in flat:
        return flat[flat.index("for") + 1].split("::")[-1]
    return flat[1].split("::")[-1] if len(flat) > 1 else "?"


class Fn:
    def __init__(self, qual, mode, line):
        self.qual = qual
        self.mode = mode or "exec"
        self.line = line
        self.end = None
        self.clauses = []  # (line, tag, props)
        self.safety = None
        self.external = False
        self.has_ensures = False
        self.has_requires = False
        self.ensures_false = False
        self.paste = None

    def props(self):
        s = set()
        for (_, _, ps) in self.clauses:
            s.update(ps)
        return s

    def safety_props(self):
        return set(self.safety) if self.safety is not None else self.props()


class Unit:
    """One generated Verus file."""

    def __init__(self, name):
        self.name = name
        self.template = os.path.join(CONTRACTS, name + ".vrs")
        self.gen = None
        self.map = None
        self.fns = []
        self.text = None

    # ---------------------------------------------------------------- extraction
    def extract(self, repo=REPO):
        ensure_extractor()
        d = os.path.join(scratch_root(), "verus")
        os.makedirs(d, exist_ok=True)
        self.gen = os.path.join(d, self.name + ".rs")
        mapf = os.path.join(d, self.name + ".map.json")
        r = subprocess.run([EXTRACT_BIN, self.template, repo, self.gen, mapf], stdout=subprocess.PIPE, stderr=subprocess.PIPE, text=True)
        # Fallback (declared in the template with `//@fallback <key>`): when a DECLARED REWRITE of that function no longer applies
        # (its source text changed), the function is not verifiable by Verus in this run.  Rather than losing the whole unit, its
        # contract is assumed for this run (external_body, listed under trusted_base) and the function is left to the bounded Kani
        # harnesses that run its compiled body -- as it was before the function was brought under Verus.
        self.fallbacks = []
        tries = 0
        while r.returncode != 0 and tries < 3:
            m = re.search(r"RULE-NO-LONGER-APPLIES replacew? `.*` in (\w+)\s*$", r.stderr.strip(), re.S)
            tpl = open(self.template if not self.fallbacks else os.path.join(d, "tpl", self.name + ".vrs")).read()
            if not m or not re.search(r"^//@fallback\s+(?:[\w,]*,)?%s(?:,|\s|$)" % re.escape(m.group(1)), tpl, re.M):
                break
            key = m.group(1)
            tdir = os.path.join(d, "tpl")
            os.makedirs(tdir, exist_ok=True)
            for fn in os.listdir(CONTRACTS):
                if fn.endswith(".vrs") and not os.path.exists(os.path.join(tdir, fn)):
                    shutil.copy(os.path.join(CONTRACTS, fn), os.path.join(tdir, fn))
            lines = tpl.split("\n")
            out = []
            for l in lines:
                mm = re.match(r"^//@(replace\??|replacew|loop|closure)\s+(\w+)", l)
                if mm and mm.group(2) == key:
                    continue
                out.append(l)
            # the paste line of `key` (alias `| as key`, or the function name itself)
            idx = None
            for i, l in enumerate(out):
                if l.strip().startswith("//@paste "):
                    parts = [x.strip() for x in l.strip()[len("//@paste "):].split("|")]
                    k = parts[2] if len(parts) > 2 else ""
                    for extra in parts[3:]:
                        if extra.startswith("as "):
                            k = extra[3:].strip()
                    if k == key:
                        idx = i
                        break
            if idx is None:
                break
            out[idx] = "        unimplemented!()   // fallback: declared rewrite no longer applies; body left to the Kani harnesses in this run"
            j = idx
            while j >= 0 and not re.match(r"^\s*(pub(\([a-z]+\))?\s+)?(unsafe\s+)?fn\s+\w+", out[j]):
                j -= 1
            if j < 0:
                break
            out.insert(j, "    #[verifier::external_body]   // fallback for this run")
            self.template = os.path.join(tdir, self.name + ".vrs")
            open(self.template, "w").write("\n".join(out))
            self.fallbacks.append(key)
            tries += 1
            r = subprocess.run([EXTRACT_BIN, self.template, repo, self.gen, mapf], stdout=subprocess.PIPE, stderr=subprocess.PIPE, text=True)
        if r.returncode != 0:
            raise Undecided("extraction of unit %s: %s" % (self.name, r.stderr.strip() or "exit %d" % r.returncode))
        self.map = json.load(open(mapf))
        self.text = open(self.gen).read()
        self._index(repo)
        return self

    def _index(self, repo):
        lines = self.text.split("\n")
        ctx = []  # stack of (kind, name, depth)
        depth = 0
        cur = None
        pending_external = False
        pending_safety = None
        self.fns = []
        for i, l in enumerate(lines, 1):
            stripped = l.strip()
            code = l.split("//")[0]
            m = SAFETY_RE.match(l)
            if m:
                pending_safety = m.group(1).split()
            if "#[verifier::external_body]" in stripped or "#[verifier::external]" in stripped:
                pending_external = True
            if re.match(r"^\s*(pub(\([a-z]+\))?\s+)?(tracked\s+|ghost\s+)?(struct|enum)\b", code):
                pending_external = False
            mm = MOD_RE.match(code)
            if mm:
                ctx.append(("mod", mm.group(1), depth))
            if re.match(r"^\s*impl\b", code) and code.rstrip().endswith("{"):
                ctx.append(("impl", impl_type(code), depth))
            mf = FN_RE.match(code)
            if mf and not stripped.startswith("//"):
                owner = [c[1] for c in ctx if c[0] == "impl"]
                qual = (owner[-1] + "::" if owner else "") + mf.group(2)
                if cur is not None and cur.end is None:
                    cur.end = i - 1
                cur = Fn(qual, mf.group(1), i)
                cur.external = pending_external
                cur.safety = pending_safety
                pending_external = False
                pending_safety = None
                self.fns.append(cur)
            if cur is not None:
                if re.match(r"^\s*ensures\b", code):
                    cur.has_ensures = True
                if re.match(r"^\s*requires\b", code):
                    cur.has_requires = True
                if re.match(r"^\s*ensures\s+false\s*,?\s*$", code):
                    cur.ensures_false = True   # proof by contradiction: hypotheses are meant to be inconsistent
                t = TAG_RE.search(l)
                if t:
                    cur.clauses.append((i, t.group(1), t.group(2).split()))
            depth += code.count("{") - code.count("}")
            while ctx and depth <= ctx[-1][2]:
                ctx.pop()
        if cur is not None and cur.end is None:
            cur.end = len(lines)
        for k, f in enumerate(self.fns):
            if f.end is None:
                f.end = self.fns[k + 1].line - 1 if k + 1 < len(self.fns) else len(lines)
        # attach paste info (repo location + hash of the verified body text)
        for p in self.map["pastes"]:
            for f in self.fns:
                if f.line <= p["gen_line_first"] <= f.end:
                    f.paste = p
                    try:
                        src = open(os.path.join(repo, p["file"]), "rb").read()[p["byte_lo"]:p["byte_hi"]].decode()
                        p["sha256"] = sha256_text(src)
                    except Exception:
                        p["sha256"] = None

    def uname(self, f):
        """functions of common.vrs (the counter) are the same obligations in every unit that includes them"""
        if f.qual.startswith("AtomicCounter::"):
            return "counter"
        if self.name in ("adaptors", "wrappers") and (f.qual.startswith("ConIterOfSlice::") or f.qual.startswith("BufferedSlice::")):
            return "slice"   # slice_core.vrs is re-verified in these units: same obligations as in the slice unit
        return self.name

    def fn_at(self, line):
        best = None
        for f in self.fns:
            if f.line <= line <= f.end:
                best = f
        return best

    def fn_by_qual(self, verus_name):
        # verus: "<crate>::[mod::]Type::fn" ; ours: "Type::fn"
        for f in self.fns:
            if verus_name.endswith("::" + f.qual) or verus_name == f.qual:
                return f
        return None

    # ---------------------------------------------------------------- obligations
    def obligations(self):
        """All named obligations of this unit: {id: set(props)}."""
        obs = {}
        for f in self.fns:
            if f.external or f.mode == "spec":
                continue
            for (line, tag, props) in f.clauses:
                oid = "%s:%s:[%s]" % (self.uname(f), f.qual, tag)
                obs.setdefault(oid, set()).update(props)
            if f.clauses or f.paste:
                sp = f.safety_props()
                if f.paste and f.mode == "exec":
                    obs["%s:%s:overflow" % (self.uname(f), f.qual)] = set(OVERFLOW_PROPS)
                if f.paste and any(e.get("rule") == "E11" for e in f.paste.get("edits", [])):
                    # a debug_assert! of the body that can fire makes debug and release builds differ (C17) -- and the operation fail
                    obs["%s:%s:debug-assert" % (self.uname(f), f.qual)] = {"C17"} | set(sp)
                if sp:
                    obs["%s:%s:safety" % (self.uname(f), f.qual)] = set(sp)
        return obs

    def trusted(self):
        out = []
        for k in getattr(self, "fallbacks", []):
            out.append("FALLBACK in this run: the declared rewrite of `%s` no longer applies to the source; its contract is assumed here and its body is checked by the bounded Kani harnesses only [unit %s]" % (k, self.name))
        for f in self.fns:
            if f.external:
                out.append("external_body (trusted contract): %s [unit %s]" % (f.qual, self.name))
        for l in self.text.split("\n"):
            if "assume_specification" in l.split("//")[0]:
                out.append("assume_specification: %s [unit %s]" % (l.strip()[:120], self.name))
            if re.search(r"\b(assume|admit)\s*\(", l.split("//")[0]):
                out.append("assume/admit: %s [unit %s]" % (l.strip()[:120], self.name))
            if "uninterp spec fn" in l.split("//")[0]:
                out.append("uninterpreted ghost view: %s [unit %s]" % (l.strip()[:120], self.name))
        return out

    # ---------------------------------------------------------------- verification
    def _run_verus(self, path, threads, rlimit, seed):
        cmd = ["verus", path, "--triggers-mode", "silent", "--multiple-errors", "30", "--error-format=json",
               "--output-json", "--time", "--num-threads", str(threads), "--rlimit", str(rlimit)]
        if seed:
            cmd += ["--smt-option", "smt.random_seed=%d" % seed]
        t0 = now()
        r = subprocess.run(cmd, stdout=subprocess.PIPE, stderr=subprocess.PIPE, text=True, cwd=os.path.dirname(path))
        wall = now() - t0
        diags = []
        for l in r.stderr.split("\n"):
            l = l.strip()
            if l.startswith("{"):
                try:
                    diags.append(json.loads(l))
                except Exception:
                    pass
        try:
            out = json.loads(r.stdout)
        except Exception:
            out = None
        return r, out, diags, wall, cmd

    def verify(self, threads=4, rlimit=10, seed=0):
        """Returns dict(failed={oid: [messages]}, verified_fns, errors, smt_ms, wall, cmd, undecided=None|str)."""
        r, out, diags, wall, cmd = self._run_verus(self.gen, threads, rlimit, seed)
        res = {"unit": self.name, "cmd": " ".join(cmd).replace(self.gen, "<generated>/%s.rs" % self.name), "wall_s": round(wall, 2),
               "failed": {}, "verified": 0, "errors": 0, "smt_ms": 0, "functions": [], "raw": []}
        hard = []
        for d in diags:
            if d.get("level") != "error":
                continue
            msg = d.get("message", "")
            if msg.startswith("aborting due to") or msg.startswith("For more information"):
                continue
            spans = d.get("spans", [])
            prim = [s for s in spans if s.get("is_primary")]
            if d.get("code") is not None or not prim:
                hard.append(msg)
                continue
            low = msg.lower()
            if "not supported" in low or "unsupported" in low or "rlimit" in low or "resource limit" in low or "does not support" in low:
                hard.append(msg)
                continue
            p = prim[0]
            ls, le = p["line_start"], p["line_end"]
            f = self.fn_at(ls)
            rendered = (d.get("rendered") or msg).strip()
            if f is not None and f.qual.split("::")[-1].startswith("canary_"):
                res.setdefault("canaries_failed", set()).add(f.qual)
                continue
            if f is None:
                hard.append(msg + " (outside any function, line %d)" % ls)
                continue
            if msg == "postcondition not satisfied":
                tags = [(ln, tag) for (ln, tag, _) in f.clauses if ls <= ln <= le]
                if not tags:
                    # clause without its own tag: attribute to the nearest following tag inside the function header
                    after = [(ln, tag) for (ln, tag, _) in f.clauses if ln >= ls]
                    tags = after[:1]
                if not tags:
                    oid = "%s:%s:safety" % (self.uname(f), f.qual)
                    res["failed"].setdefault(oid, []).append(rendered)
                for (_, tag) in tags:
                    oid = "%s:%s:[%s]" % (self.uname(f), f.qual, tag)
                    res["failed"].setdefault(oid, []).append(rendered)
                continue
            cls = None
            for needle, c in SAFETY_CLASSES:
                if needle in msg:
                    cls = c
                    break
            if cls is None:
                hard.append(msg)
                continue
            if cls == "overflow" and f.paste and f.mode == "exec":
                oid = "%s:%s:overflow" % (self.uname(f), f.qual)
            elif cls == "precondition" and "verif_debug_assert" in rendered and f.paste:
                oid = "%s:%s:debug-assert" % (self.uname(f), f.qual)   # rule E11
            else:
                oid = "%s:%s:safety" % (self.uname(f), f.qual)
            res["failed"].setdefault(oid, []).append(rendered)
        if out is None:
            res["undecided"] = "verus produced no result json (exit %d): %s" % (r.returncode, (hard or [r.stderr[-600:]])[0])
            return res
        vr = out.get("verification-results", {})
        res["verified"] = vr.get("verified", 0)
        res["errors"] = vr.get("errors", 0)
        if vr.get("encountered-vir-error") or (vr.get("encountered-error") and not res["failed"] and not res.get("canaries_failed")) or hard:
            res["undecided"] = "verus could not process unit %s: %s" % (self.name, "; ".join(hard)[:800] or "error without diagnostics")
            return res
        smt = out.get("times-ms", {}).get("smt", {})
        res["smt_ms"] = smt.get("smt-run", 0)
        for mt in smt.get("smt-run-module-times", []):
            for fb in mt.get("function-breakdown", []):
                f = self.fn_by_qual(fb["function"])
                res["functions"].append({"function": fb["function"], "ok": fb.get("success"), "ms": fb.get("time"), "rlimit": fb.get("rlimit"),
                                         "repo": ("%s:%d" % (f.paste["file"], f.paste["repo_line_first"])) if f and f.paste else None,
                                         "body_sha256": f.paste.get("sha256") if f and f.paste else None})
                if f is not None and f.qual.split("::")[-1].startswith("canary_"):
                    continue
                if fb.get("success") is False and f is not None:
                    pref = "%s:%s:" % (self.uname(f), f.qual)
                    if not any(k.startswith(pref) for k in res["failed"]):
                        res["undecided"] = "function %s failed without a mapped diagnostic" % fb["function"]
        canaries = [f.qual for f in self.fns if f.qual.split("::")[-1].startswith("canary_")]
        got = res.pop("canaries_failed", set())
        res["canaries"] = {"expected": len(canaries), "failed_as_expected": len([c for c in canaries if c in got])}
        missing = [c for c in canaries if c not in got]
        if missing and not res.get("undecided"):
            res["undecided"] = "vacuity canary verified although it asserts false: %s" % ", ".join(missing)
        res["undecided"] = res.get("undecided")
        return res

    # ---------------------------------------------------------------- vacuity twins
    def twins(self, threads=4):
        """Vacuity: every verified function that has a `requires` must FAIL when `assert(false)` is put at the
        start of its body (a contradictory precondition would let it pass).  Functions named canary_* (which call a
        trusted external_body function and then assert false) are checked in the main run, see verify()."""
        lines = self.text.split("\n")
        expect = []
        for f in self.fns:
            if f.external or f.mode == "spec" or not f.has_requires or f.ensures_false or f.qual.split("::")[-1].startswith("canary_"):
                continue
            for i in range(f.line - 1, f.end):
                if lines[i].strip() == "{":
                    lines[i] = lines[i] + (" assert(false);" if f.mode == "proof" else " proof { assert(false); }")
                    expect.append(f)
                    break
        if not expect:
            return {"expected": 0, "failed_as_expected": 0, "wall_s": 0.0}
        path = self.gen[:-3] + "_twins.rs"
        open(path, "w").write("\n".join(lines))
        r, out, diags, wall, cmd = self._run_verus(path, threads, 10, 0)
        if out is None:
            return {"undecided": "twin run of %s produced no json" % self.name, "expected": len(expect), "failed_as_expected": 0}
        ok = {}
        for mt in out.get("times-ms", {}).get("smt", {}).get("smt-run-module-times", []):
            for fb in mt.get("function-breakdown", []):
                ok[fb["function"]] = fb.get("success")
        bad = []
        n = 0
        for f in expect:
            hit = [k for k in ok if k.endswith("::" + f.qual)]
            if hit and all(ok[k] is False for k in hit):
                n += 1
            else:
                bad.append(f.qual)
        res = {"expected": len(expect), "failed_as_expected": n, "wall_s": round(wall, 2)}
        if bad:
            res["undecided"] = "vacuity canary did not fail for %s in unit %s" % (", ".join(bad), self.name)
        return res


def units_for(prop):
    """Units whose templates carry at least one clause tagged with prop (or overflow obligations for C16/C17)."""
    out = []
    for fn in sorted(os.listdir(CONTRACTS)):
        if not fn.endswith(".vrs"):
            continue
        txt = open(os.path.join(CONTRACTS, fn)).read()
        if "verus! {" not in txt:
            continue   # include files (common*.vrs) are not units
        if "//@include slice_core.vrs" in txt and fn == "slice.vrs":
            # (the adaptors / wrappers units re-verify slice_core.vrs as context only: they serve the properties of their OWN clauses,
            # so that a change that stops cloned.rs / copied.rs / wrappers from being extracted does not make every property undecided)
            txt += open(os.path.join(CONTRACTS, "slice_core.vrs")).read()
        if "//@include common_p.vrs" in txt:
            txt += open(os.path.join(CONTRACTS, "common_p.vrs")).read()
        if "//@include common.vrs" in txt:
            txt += open(os.path.join(CONTRACTS, "common.vrs")).read()
        tagged = any(prop in (m.group(2).split()) for m in (TAG_RE.search(l) for l in txt.split("\n")) if m)
        if tagged or (prop in OVERFLOW_PROPS and "//@paste" in txt and fn not in ("adaptors.vrs", "wrappers.vrs", "foreach.vrs")):
            out.append(fn[:-4])
    return out


def run_units(names, tier, seed=0):
    """Extract + verify + twins for several units in parallel threads.  Returns list of (unit, result, twin)."""
    results = {}
    nthreads = max(1, 16 // max(1, 2 * len(names)))

    def work(n):
        try:
            u = Unit(n).extract()
        except Undecided as e:
            results[n] = (None, {"unit": n, "undecided": str(e), "failed": {}}, None)
            return
        out = {}
        tw = {}

        def a():
            out.update(u.verify(threads=nthreads, rlimit=10 if tier == "quick" else 30, seed=seed if tier == "thorough" else 0))

        def b():
            tw.update(u.twins(threads=nthreads))
        ta = threading.Thread(target=a)
        tb = threading.Thread(target=b)
        ta.start(); tb.start(); ta.join(); tb.join()
        results[n] = (u, out, tw)

    ths = [threading.Thread(target=work, args=(n,)) for n in names]
    for t in ths:
        t.start()
    for t in ths:
        t.join()
    return [results[n] for n in names]
