"""Shared helpers for the /verif check driver."""
import hashlib
import json
import os
import shutil
import subprocess
import sys
import tempfile
import time

VERIF = os.path.dirname(os.path.dirname(os.path.abspath(__file__)))
REPO = os.environ.get("VERIF_REPO", "/repo")
EXTRACT_DIR = os.path.join(VERIF, "tools", "extract")
EXTRACT_BIN = os.path.join(EXTRACT_DIR, "target", "release", "orx-extract")
CONTRACTS = os.path.join(VERIF, "contracts")
KANI_DIR = os.path.join(VERIF, "kani")
EVIDENCE = os.environ.get("VERIF_EVIDENCE_DIR", os.path.join(VERIF, "evidence"))
REPLAYS = os.environ.get("VERIF_REPLAYS_DIR", os.path.join(VERIF, "replays"))
KNOWN = os.path.join(VERIF, "known_findings.json")

OFFLINE_ENV = {"CARGO_NET_OFFLINE": "true"}


class Undecided(Exception):
    """Machinery trouble: lost anchor, unsupported construct, solver limit, tool crash.  Never a VIOLATION."""


def env_offline():
    e = dict(os.environ)
    e.update(OFFLINE_ENV)
    return e


def ensure_extractor():
    if os.path.exists(EXTRACT_BIN):
        src = os.path.join(EXTRACT_DIR, "src", "main.rs")
        if os.path.getmtime(src) <= os.path.getmtime(EXTRACT_BIN):
            return
    r = subprocess.run(["cargo", "build", "--release", "--offline"], cwd=EXTRACT_DIR, env=env_offline(),
                       stdout=subprocess.PIPE, stderr=subprocess.STDOUT, text=True)
    if r.returncode != 0:
        raise Undecided("extractor does not build:\n" + r.stdout[-2000:])


_scratch_root = None
_scratch_lock = __import__("threading").Lock()


def _rm_scratch(path):
    shutil.rmtree(path, ignore_errors=True)
    if os.path.exists(path):   # (read-only build outputs etc.)
        subprocess.run(["chmod", "-R", "u+w", path], stdout=subprocess.DEVNULL, stderr=subprocess.DEVNULL)
        subprocess.run(["rm", "-rf", path], stdout=subprocess.DEVNULL, stderr=subprocess.DEVNULL)


def scratch_root():
    """Per-process scratch directory outside /repo and /verif; removed at exit (the Verus and Kani sides ask for it from two
    threads: created once, under a lock)."""
    global _scratch_root
    with _scratch_lock:
        if _scratch_root is None:
            _scratch_root = tempfile.mkdtemp(prefix="orxverif.%d." % os.getpid(), dir=os.environ.get("VERIF_TMP", "/tmp"))
            import atexit
            atexit.register(_rm_scratch, _scratch_root)
    return _scratch_root


def sha256_text(s):
    return hashlib.sha256(s.encode()).hexdigest()


def repo_head():
    try:
        return subprocess.run(["git", "-C", REPO, "rev-parse", "--short", "HEAD"], stdout=subprocess.PIPE, text=True).stdout.strip()
    except Exception:
        return "?"


def repo_dirty():
    try:
        out = subprocess.run(["git", "-C", REPO, "status", "--porcelain", "--", "src", "Cargo.toml"], stdout=subprocess.PIPE, text=True).stdout
        return bool(out.strip())
    except Exception:
        return False


def now():
    return time.time()


def write_json(path, obj):
    os.makedirs(os.path.dirname(path), exist_ok=True)
    tmp = path + ".tmp"
    with open(tmp, "w") as f:
        json.dump(obj, f, indent=1, sort_keys=False)
        f.write("\n")
    os.replace(tmp, path)


def eprint(*a):
    print(*a, file=sys.stderr)
