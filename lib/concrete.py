"""Concrete replays: turn a verifier-reported violation into a failing input that is run against the REAL crate.
1. If the failed obligation belongs to (or is paired with) a Kani harness annotated with `inputs=` / `scenario=`, the harness is
   re-run with Kani's concrete playback, the counterexample values are decoded and the resulting sequential scenario is executed
   by the replay driver (replay_driver/, plain Rust against the tree under test, debug and release profile).
2. Otherwise, or if that scenario does not reproduce natively (e.g. the counterexample needs an interleaving), the driver
   enumerates short boundary scenarios for the kinds the obligation concerns ("sweep").  A sweep hit is labelled as such: it is
   a failing input found by enumeration after the verifier reported the violation, not the verifier's own counterexample."""
import os
import re
import shutil
import subprocess

import common
import kunit
from common import VERIF, env_offline, scratch_root

_driver = {}

KIND_HINTS = [("array", "array"), ("vec", "vec"), ("range", "range"), ("slice", "slice"), ("bufinner", "iter"), ("iter", "iter"),
              ("cloned", "cloned,slice"), ("copied", "copied,slice"), ("adaptors", "cloned,copied"), ("wrappers", "slice,vec"), ("chunkiter", "vec,array"), ("foreach", "slice"), ("fold", "slice"), ("counter", "slice,range,vec,array,iter"),
              ("klemmas", "slice,range"), ("tlemmas", "iter")]

# Verus obligations -> Kani harnesses that assert the same clause on the compiled crate
PAIRS = [
    (r"^slice:ConIterOfSlice::(fetch_n|next_chunk)", ["seq_slice_nowrap"]),
    (r"^slice:BufferedSlice::pull", ["seq_slice_nowrap"]),
    (r"^vec:ConIterOfVec::(fetch_n|next_chunk)", ["vec_ledger_chunk"]),
    (r"^vec:ConIterOfVec::(fetch_one|next|next_id_and_value|get)", ["vec_ledger_next"]),
    (r"^vec:ConIterOfVec::(early_exit|skip_to_end)", ["vec_ledger_skip"]),
    (r"^vec:ConIterOfVec::into_seq_iter", ["vec_into_seq"]),
    (r"^vec:BufferedVec::pull", ["vec_ledger_buffered"]),
    (r"^array:ConIterOfArray::(fetch_n|next_chunk)", ["array_ledger_chunk"]),
    (r"^array:ConIterOfArray::(fetch_one|next|next_id_and_value|get)", ["array_ledger_next"]),
    (r"^array:ConIterOfArray::(early_exit|skip_to_end)", ["array_ledger_skip"]),
    (r"^array:ConIterOfArray::into_seq_iter", ["array_into_seq"]),
    (r"^array:BufferedArray::pull", ["array_ledger_buffered"]),
]


def build_driver():
    """Build replay_driver against a scratch copy of the tree under test; returns {profile: binary}."""
    if _driver:
        return _driver
    dst, _ = kunit.scratch_repo()
    d = os.path.join(scratch_root(), "replay_driver")
    os.makedirs(os.path.join(d, "src"), exist_ok=True)
    toml = open(os.path.join(VERIF, "replay_driver", "Cargo.toml.in")).read().replace("@REPO@", dst)
    open(os.path.join(d, "Cargo.toml"), "w").write(toml)
    shutil.copy(os.path.join(VERIF, "replay_driver", "src", "main.rs"), os.path.join(d, "src", "main.rs"))
    lock = os.path.join(dst, "Cargo.lock")
    if os.path.exists(lock):
        shutil.copy(lock, os.path.join(d, "Cargo.lock"))
    env = dict(env_offline(), CARGO_TARGET_DIR=os.path.join(d, "target"))
    for prof, flag in (("debug", []), ("release", ["--release"])):
        r = subprocess.run(["cargo", "build", "--offline"] + flag, cwd=d, env=env, stdout=subprocess.PIPE, stderr=subprocess.STDOUT, text=True)
        if r.returncode == 0:
            _driver[prof] = os.path.join(d, "target", prof, "replay-driver")
        else:
            _driver[prof + "_error"] = r.stdout[-800:]
    return _driver


def run_driver(args):
    out = {}
    drv = build_driver()
    reproduced = False
    for prof in ("debug", "release"):
        if prof not in drv:
            out[prof] = "driver did not build: " + drv.get(prof + "_error", "")[-300:]
            continue
        try:
            r = subprocess.run([drv[prof]] + args, stdout=subprocess.PIPE, stderr=subprocess.STDOUT, text=True, timeout=600)
            out[prof] = r.stdout.strip()[-600:]
            if r.returncode == 1 and "REPRODUCED:" in r.stdout:
                reproduced = True
            elif r.returncode not in (0, 1, 2):
                # the real code aborted / crashed on this input (allocation failure, abort from a std unsafe-precondition check, signal)
                out[prof] = ("REPRODUCED: process terminated abnormally (exit status %d)\n" % r.returncode) + out[prof]
                reproduced = True
        except subprocess.TimeoutExpired:
            out[prof] = "timeout"
    out["reproduced"] = reproduced
    return out


def kinds_for(oid):
    name = oid.split(":")[1] if oid.startswith("kani:") else oid.split(":")[0]
    for key, kinds in KIND_HINTS:
        if key in name:
            return kinds
    return "slice,range,vec,array,iter"


def playback(harness):
    """Run one harness with Kani's concrete playback; returns [(description, [ints])] for failed assertions."""
    dst, _ = kunit.scratch_repo()
    kunit.ensure_injected(harness.file)
    cmd = ["cargo", "kani", "-Z", "function-contracts", "-Z", "stubbing", "-Z", "concrete-playback", "--concrete-playback=print", "--exact", "--harness", kunit.full_name(harness)]
    cmd += kunit.GROUP_FLAGS.get(harness.group, [])
    try:
        r = subprocess.run(cmd, cwd=dst, env=env_offline(), stdout=subprocess.PIPE, stderr=subprocess.STDOUT, text=True, timeout=300)
    except subprocess.TimeoutExpired:
        return []
    res = []
    for m in re.finditer(r"/// Check for `(\w+)`: \"(.*?)\"\s*\n(.*?)kani::concrete_playback_run", r.stdout, re.S):
        kind, desc, body = m.group(1), m.group(2).strip('"'), m.group(3)
        if kind == "cover":
            continue
        vals = []
        for v in re.finditer(r"vec!\[([\d, ]*)\]", body.split("vec![", 1)[1] if "vec![" in body else ""):
            bs = [int(x) for x in v.group(1).split(",") if x.strip()]
            vals.append(sum(b << (8 * i) for i, b in enumerate(bs)))
        res.append((desc, vals))
    return res


def scenario_from(harness, vals):
    """Decode positional kani::any() values with the harness' `inputs=` list and fill its `scenario=` template."""
    src = open(os.path.join(common.KANI_DIR, harness.file)).read()
    m = re.search(r"@harness\s+name=%s\b[^\n]*" % re.escape(getattr(harness, "fn_name", harness.name)), src)
    if not m:
        return None
    line = m.group(0)
    mi = re.search(r'inputs=([\w,]+)', line)
    ms = re.search(r'scenario="([^"]*)"', line)
    if not mi or not ms:
        return None
    names = mi.group(1).split(",")
    if not vals:
        return None
    # (a counterexample ends at the failed check: inputs chosen after it do not appear; they default to 0)
    env = dict(zip(names, list(vals) + [0] * (len(names) - len(vals))))
    try:
        return ms.group(1).format(**env).split(), env
    except Exception:
        return None


def find_and_replay(prop, failure):
    oid = failure["oid"]
    hs = {h.name: h for h in kunit.load_harnesses()}
    cands = []
    if failure.get("harness") in hs:
        cands.append(hs[failure["harness"]])
    for pat, names in PAIRS:
        if re.search(pat, oid):
            cands += [hs[n] for n in names if n in hs]
    tried = []
    for h in cands:
        for desc, vals in playback(h)[:3]:
            sc = scenario_from(h, vals)
            if not sc:
                continue
            args, env = sc
            r = run_driver(args)
            tried.append({"harness": h.name, "check": desc, "values": env, "scenario": " ".join(args), "result": r})
            if r["reproduced"]:
                return {"input": {"source": "kani concrete playback of harness %s (failed check: %s)" % (h.name, desc), "values": env, "scenario": " ".join(args)}, "replay": r}
    # fallback: boundary enumeration on the real crate
    nowrap = "0" if "after-counter-wrap" in oid else "1"
    args = ["sweep", "kinds=" + kinds_for(oid), "nowrap=" + nowrap]
    r = run_driver(args)
    scen = None
    for prof in ("debug", "release"):
        m = re.search(r"SCENARIO: (.*)", r.get(prof, "") or "")
        if m:
            scen = m.group(1).strip()
            break
    if r["reproduced"]:
        return {"input": {"source": "boundary enumeration of short sequential scenarios on the real crate, run after the verifier reported the violation (not the verifier's own counterexample)", "scenario": scen, "kani_playbacks_tried": tried}, "replay": r}
    return {"input": {"kani_playbacks_tried": tried} if tried else None, "replay": r}


def replay_input(ci):
    scen = ci.get("scenario")
    if not scen:
        return {"reproduced": False, "note": "no scenario recorded"}
    return run_driver(scen.split())
