import sys, os, subprocess, re
sys.path.insert(0,'/verif/lib')
import vunit
WT=os.environ.get('WT','/tmp/pb/wt')  # a scratch worktree of /repo (git -C /repo worktree add --detach <dir> HEAD)
muts=[
 ("src/iter/buffered/iter.rs","iter.progress_yielded_counter(self.chunk_size())","iter.progress_yielded_counter(i)"),
 ("src/iter/implementors/iter.rs","false => self.completed.store(true, atomic::Ordering::SeqCst),","false => {}"),
 ("src/iter/implementors/iter.rs","Ordering::Equal => return Some(begin_idx),\n\n                Ordering::Less => return None,","Ordering::Equal | Ordering::Less => return Some(begin_idx),"),
 # (relaxing the ordering of `completed.store` is NOT a mutant: no listed property depends on it -- see DESIGN.md C07 "as built")
 ("src/iter/buffered/iter.rs","Some(x) => self.values[i] = Some(x),","Some(x) => self.values[0] = Some(x),"),
]
for f,a,b in muts:
    subprocess.run(["git","-C",WT,"checkout","-q","--","."])
    p=os.path.join(WT,f); s=open(p).read()
    assert a in s, (f,a)
    open(p,'w').write(s.replace(a,b,1))
    try:
        u=vunit.Unit('iter').extract(WT); r=u.verify()
        print(b[:50].replace("\n"," "), '=>', r.get('undecided'), sorted(r['failed'])[:4])
    except Exception as e: print(b[:40], 'EXC', e)
subprocess.run(["git","-C",WT,"checkout","-q","--","."])
