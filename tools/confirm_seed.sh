#!/bin/bash
# usage: confirm_seed.sh <seed-dir> <worktree>
# Confirms a seeded regression independently in a scratch worktree of /repo: the patch applies, the crate compiles and the whole
# existing test suite passes with it, the demonstration fails with it and passes without it.  Writes <seed-dir>/confirm.json.
set -u
S=$1; WT=$2
export CARGO_TARGET_DIR=$WT/target
cd $WT || exit 2
git checkout -q -- . ; rm -f tests/demo.rs tests/demo_*.rs examples/demo.rs
demo=$(ls $S/demo.rs $S/demo_*.rs 2>/dev/null | head -1)
res() { python3 - "$@" <<'PY'
import json,sys
keys=["applies","suite_passes_with_change","demo_fails_with_change","demo_passes_without_change","note"]
vals=sys.argv[2:]
json.dump(dict(zip(keys,[v if i==4 else v=="1" for i,v in enumerate(vals)])), open(sys.argv[1]+"/confirm.json","w"), indent=1)
PY
}
if ! git apply --check $S/patch.diff 2>/dev/null; then res $S 0 0 0 0 "patch does not apply"; exit 1; fi
git apply $S/patch.diff
suite=0; cargo test --offline --lib --tests >$S/confirm_suite.log 2>&1 && suite=1
cp $demo tests/demo.rs
dfail=0; timeout 900 cargo test --offline --test demo >$S/confirm_demo_with.log 2>&1 || dfail=1
git checkout -q -- src
dpass=0; timeout 900 cargo test --offline --test demo >$S/confirm_demo_without.log 2>&1 && dpass=1
rm -f tests/demo.rs
res $S 1 $suite $dfail $dpass "ok"
echo "$S applies=1 suite=$suite demo_fails_with=$dfail demo_passes_without=$dpass"
