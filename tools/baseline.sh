#!/bin/bash
# Runs the repository's pinned test suite (guard OFF: plain cargo, no --cfg kani) and compares the set of passing
# tests with /root/.vp/BASELINE.json "stable_pass".  exit 0 iff every baseline test still passes.
set -u
cd /repo
rm -rf target/nextest/pb/junit.xml
cargo nextest run --workspace --no-fail-fast --tool-config-file pb:/w/lib/nextest.toml --profile pb --test-threads 8 --offline >/tmp/baseline_run.log 2>&1
python3 - <<'PY'
import json, glob, sys, xml.etree.ElementTree as ET
base = set(json.load(open('/root/.vp/BASELINE.json'))['stable_pass'])
fs = glob.glob('/repo/target/nextest/pb/junit.xml')
if not fs:
    print("no junit output; see /tmp/baseline_run.log"); sys.exit(2)
passed, failed = set(), set()
for ts in ET.parse(fs[0]).getroot().iter('testsuite'):
    suite = ts.get('name')
    for tc in ts.iter('testcase'):
        name = "%s::%s" % (suite, tc.get('name'))
        bad = any(c.tag in ('failure', 'error') for c in tc)
        (failed if bad else passed).add(name)
missing = sorted(base - passed)
print("passed=%d failed=%d baseline=%d baseline_missing=%d" % (len(passed), len(failed), len(base), len(missing)))
for m in missing[:20]:
    print("  MISSING", m)
sys.exit(0 if not missing else 1)
PY
