#!/bin/bash
# usage: try_seed.sh <seed-dir> <property> [tier]  -- applies the seeded change to /repo, runs the property's check, reverts.
S=$1; P=$2; T=${3:-quick}
cd /repo && git status --porcelain -- src | grep -q . && { echo "/repo has uncommitted changes in src: refusing"; exit 2; }
git -C /repo apply $S/patch.diff || { echo "patch does not apply"; exit 2; }
cd /verif && ./check $P --tier $T > /tmp/try_seed_$P.log 2>&1; rc=$?
git -C /repo checkout -- .
echo "seed=$(basename $S) property=$P tier=$T exit=$rc"
grep -E "^VIOLATION|failed obligation|^OK|^UNDECIDED|^KNOWN" /tmp/try_seed_$P.log | cut -c1-260 | head -12
exit $rc
