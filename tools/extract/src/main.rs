//! orx-extract: paste the *real* function bodies of /repo into a Verus contract template.
//!
//! usage: orx-extract <template.vrs> <repo-root> <out.rs> <out.map.json>
//!
//! The template is an ordinary Verus file whose function bodies are `//@paste` directives.  Everything the
//! tool changes in a pasted body is one of the declared rules of DESIGN.md section 3.3 and is recorded in the
//! map file (rule, byte offset in the repo file, inserted / replaced text), so that a reader (and the erasure
//! check below) can see that the verified text is the repo text plus ghost plumbing.
//!
//! Directives (line comments):
//!   //@include <file>                         textual include (relative to the template's directory)
//!   //@ghostcalls a,b,c                       calls to these names get `Tracked(log)` appended            (E3)
//!   //@matchcalls a,b,c                      an `and_then` / `map` closure whose body calls one of these methods is also spelled out as a
//!                                             `match` by rule E12 (closures that capture `&mut` fields of self, which Verus does not read)
//!   //@closure <fn> <ordinal> | <spec>        spec inserted after the parameter list of the n-th closure  (E6)
//!   //@loop <fn> <ordinal> | <spec>           invariant/decreases inserted before the n-th loop's body    (E6)
//!   //@replace <fn> | <from> | <to>           declared textual rewrite inside one body (must apply >= 1x) (E5/E7)
//!   //@replace? <fn> | <from> | <to>          same, but allowed not to apply
//!   //@replacew <fn> ::: <from> ::: <to>      same as //@replace, compared with all whitespace removed (multi-line source text)
//!   //@sig <file> | <sel> | <fn> | <expected real signature>      (whitespace-insensitive)                (E2)
//!   //@sig? ...                               same, but only the existence of the function is required (functions whose body is
//!                                             not pasted: their contract is assumed here and checked on the real body by Kani)
//!   //@struct <file> | <Name> | <expected field list>             (whitespace-insensitive)                (E2)
//!   (automatic) `_ = e;` inside a pasted body becomes `let _ = e;`                                        (E9)
//!   (automatic) a call of a private helper of the same repo file that the template does not define and that has no
//!               early exit is replaced by a block binding its parameters around the helper's own body       (E10)
//!   (automatic) `debug_assert!(e)` / `debug_assert_eq!(a, b)` / `debug_assert_ne!(a, b)` inside a pasted body become
//!               `verif_debug_assert(cond)`, a function that requires `cond` (obligation `:debug-assert`, C17)    (E11)
//!   (automatic) `opt.and_then(|p| body)` / `opt.map(|p| body)` whose closure body contains a logged (ghost) call and no early
//!               exit becomes `(match opt { Some(p) => body | Some(body), None => None })`                     (E12)
//!   //@paste <file> | <sel> | <fn> [| as <key>]   replaced by the verbatim body of that function; <key> (default: <fn>) is the
//!                                             name under which //@closure, //@loop, //@replace address this paste
//! <sel>: "<Trait> for <Type>", "inherent <Type>", "trait <Trait>" (default method) or "free" (free function).
//!
//! exit status: 0 ok; 2 = undecided (lost anchor, changed signature, rule that no longer applies, parse error).
use proc_macro2::Span;
use std::collections::HashMap;
use std::fmt::Write as _;
use syn::spanned::Spanned;
use syn::visit::Visit;

fn undecided(msg: String) -> ! {
    eprintln!("UNDECIDED: {}", msg);
    std::process::exit(2)
}

fn start(s: Span) -> usize {
    s.byte_range().start
}
fn end(s: Span) -> usize {
    s.byte_range().end
}

#[derive(Clone, Debug)]
struct Edit {
    start: usize,
    end: usize,
    text: String,
    rule: &'static str,
}

/// a private helper defined in the same repo file (inherent / trait-impl method of the same type, or free fn) that the
/// template does not know: candidates for rule E10 (inlining)
struct Helper<'f> {
    sig: &'f syn::Signature,
    block: &'f syn::Block,
    /// type parameters in scope of the helper (its impl block's and its own): a parameter type that mentions one of them cannot be
    /// written at the call site of the instantiated template, so the binding is left to type inference
    generics: Vec<String>,
}

struct Edits<'a> {
    src: &'a str,
    helpers: &'a HashMap<String, Helper<'a>>,
    depth: usize,
    inlined: Vec<String>,
    ghost: &'a [String],
    closure_specs: &'a HashMap<usize, String>,
    loop_specs: &'a HashMap<usize, String>,
    /// method names whose call inside an `and_then` / `map` closure also triggers rule E12 (`//@matchcalls`): closures that capture `&mut self` fields
    matchcalls: &'a [String],
    closure_no: usize,
    loop_no: usize,
    used_closure: Vec<usize>,
    used_loop: Vec<usize>,
    ins: Vec<Edit>,
}

struct HasEarlyExit(bool);
impl<'ast> Visit<'ast> for HasEarlyExit {
    fn visit_expr_return(&mut self, _: &'ast syn::ExprReturn) { self.0 = true; }
    fn visit_expr_try(&mut self, _: &'ast syn::ExprTry) { self.0 = true; }
    fn visit_expr_closure(&mut self, _: &'ast syn::ExprClosure) {} // a `return` inside a closure returns from the closure
}

/// does an expression contain a call that rule E3 threads the ghost log through?
struct HasGhostCall<'g> { ghost: &'g [String], found: bool }
impl<'g, 'ast> Visit<'ast> for HasGhostCall<'g> {
    fn visit_expr_method_call(&mut self, m: &'ast syn::ExprMethodCall) {
        if self.ghost.iter().any(|g| m.method == g) { self.found = true; }
        syn::visit::visit_expr_method_call(self, m);
    }
    fn visit_expr_call(&mut self, c: &'ast syn::ExprCall) {
        if let syn::Expr::Path(p) = &*c.func {
            let last = p.path.segments.last().map(|s| s.ident.to_string()).unwrap_or_default();
            if self.ghost.iter().any(|g| *g == last) { self.found = true; }
        }
        syn::visit::visit_expr_call(self, c);
    }
}

fn apply_edits(src: &str, lo: usize, hi: usize, mut ins: Vec<Edit>) -> (String, Vec<Edit>) {
    ins.sort_by_key(|e| (e.start, std::cmp::Reverse(e.end)));
    let mut cur = lo;
    let mut out = String::new();
    let mut applied = vec![];
    for e in ins {
        if e.start < cur { continue; } // nested inside an edit that replaced a larger span
        out.push_str(&src[cur..e.start]);
        out.push_str(&e.text);
        cur = e.end;
        applied.push(e);
    }
    out.push_str(&src[cur..hi]);
    (out, applied)
}

impl<'a> Edits<'a> {
    /// E10: `self.helper(args)` / `Self::helper(self, args)` / `helper(args)` where `helper` is a private function of the same
    /// file that the template does not know and that has no early exit: replaced by a block that binds the parameters and
    /// contains the helper's own body (with the same rules applied to it).  Returns the replacement text.
    fn inline_call(&mut self, name: &str, args: Vec<&syn::Expr>, skip_receiver_arg: bool) -> Option<String> {
        if self.depth >= 3 { return None; }
        let h = self.helpers.get(name)?;
        let mut ee = HasEarlyExit(false);
        ee.visit_block(h.block);
        if ee.0 { return None; }
        let mut params: Vec<(String, String)> = vec![];
        for inp in h.sig.inputs.iter() {
            if let syn::FnArg::Typed(pt) = inp {
                params.push((self.src[pt.pat.span().byte_range()].to_string(), self.src[pt.ty.span().byte_range()].to_string()));
            }
        }
        let args: Vec<&syn::Expr> = if skip_receiver_arg { args.into_iter().skip(1).collect() } else { args };
        if args.len() != params.len() { return None; }
        let empty = HashMap::new();
        let mut sub = Edits { src: self.src, helpers: self.helpers, depth: self.depth + 1, inlined: vec![], ghost: self.ghost, matchcalls: self.matchcalls, closure_specs: &empty, loop_specs: &empty,
                              closure_no: 0, loop_no: 0, used_closure: vec![], used_loop: vec![], ins: vec![] };
        sub.visit_block(h.block);
        let br = h.block.span().byte_range();
        let (body, _) = apply_edits(self.src, br.start + 1, br.end - 1, sub.ins);
        let mut t = String::from("{ ");
        for ((pat, ty), a) in params.iter().zip(args.iter()) {
            let mentions_generic = ty.split(|c: char| !(c.is_alphanumeric() || c == '_')).any(|w| h.generics.iter().any(|g| g == w) || w == "Self");
            if mentions_generic { t.push_str(&format!("let {} = {}; ", pat, &self.src[a.span().byte_range()])); }
            else { t.push_str(&format!("let {}: {} = {}; ", pat, ty, &self.src[a.span().byte_range()])); }
        }
        t.push_str(&format!("/* inlined {} */ {{ {} }} }}", name, body));
        self.inlined.push(name.to_string());
        self.inlined.extend(sub.inlined);
        Some(t)
    }
    fn loop_body(&mut self, body: &syn::Block) {
        self.loop_no += 1;
        if let Some(spec) = self.loop_specs.get(&self.loop_no) {
            let p = start(body.brace_token.span.open());
            self.ins.push(Edit { start: p, end: p, text: format!(" {} ", spec), rule: "E6-loop" });
            self.used_loop.push(self.loop_no);
        }
    }
}

impl<'a, 'ast> Visit<'ast> for Edits<'a> {
    fn visit_expr_method_call(&mut self, m: &'ast syn::ExprMethodCall) {
        // E12: `opt.and_then(|p| body)` / `opt.map(|p| body)` whose closure body performs logged operations (a Verus closure cannot
        // capture the `&mut` ghost log) and has no early exit is spelled out as the `match` that `Option::and_then` / `Option::map`
        // are defined as: `(match opt { Some(p) => body, None => None })` / `(match opt { Some(p) => Some(body), None => None })`.
        // (Should the receiver not be an Option, the rewritten text does not type-check and the unit is undecided.)
        if (m.method == "and_then" || m.method == "map") && m.args.len() == 1 {
            if let syn::Expr::Closure(c) = &m.args[0] {
                if c.inputs.len() == 1 {
                    let mut g = HasGhostCall { ghost: self.ghost, found: false };
                    g.visit_expr(&c.body);
                    if !g.found {
                        let mut g2 = HasGhostCall { ghost: self.matchcalls, found: false };
                        g2.visit_expr(&c.body);
                        g.found = g2.found;
                    }
                    let mut ee = HasEarlyExit(false);
                    ee.visit_expr(&c.body);
                    if g.found && !ee.0 {
                        let pat = match &c.inputs[0] { syn::Pat::Type(pt) => self.src[pt.pat.span().byte_range()].to_string(), p => self.src[p.span().byte_range()].to_string() };
                        let whole = m.span().byte_range();
                        let recv = m.receiver.span().byte_range();
                        let body = c.body.span().byte_range();
                        let is_map = m.method == "map";
                        self.closure_no += 1;
                        self.ins.push(Edit { start: whole.start, end: whole.start, text: "(match ".to_string(), rule: "E12" });
                        self.ins.push(Edit { start: recv.end, end: body.start, text: format!(" {{ Some({}) => {}", pat, if is_map { "Some(" } else { "" }), rule: "E12" });
                        self.ins.push(Edit { start: body.end, end: whole.end, text: format!("{}, None => None }})", if is_map { ")" } else { "" }), rule: "E12" });
                        self.visit_expr(&m.receiver);
                        self.visit_expr(&c.body);
                        return;
                    }
                }
            }
        }
        let is_self = matches!(&*m.receiver, syn::Expr::Path(p) if p.path.is_ident("self"));
        if is_self && self.helpers.contains_key(&m.method.to_string()) {
            if let Some(t) = self.inline_call(&m.method.to_string(), m.args.iter().collect(), false) {
                let r = m.span().byte_range();
                self.ins.push(Edit { start: r.start, end: r.end, text: t, rule: "E10" });
                return;
            }
        }
        if self.ghost.iter().any(|g| m.method == g) {
            let close = start(m.paren_token.span.close());
            let txt = if m.args.is_empty() { "Tracked(log)" } else { ", Tracked(log)" };
            self.ins.push(Edit { start: close, end: close, text: txt.to_string(), rule: "E3" });
        }
        syn::visit::visit_expr_method_call(self, m);
    }
    fn visit_expr_call(&mut self, c: &'ast syn::ExprCall) {
        if let syn::Expr::Path(p) = &*c.func {
            let last = p.path.segments.last().map(|s| s.ident.to_string()).unwrap_or_default();
            let is_self_path = p.qself.is_none() && p.path.segments.len() == 2 && p.path.segments[0].ident == "Self";
            let is_bare = p.qself.is_none() && p.path.segments.len() == 1;
            if (is_self_path || is_bare) && self.helpers.contains_key(&last) {
                let first_is_self = c.args.first().map(|a| matches!(a, syn::Expr::Path(q) if q.path.is_ident("self"))).unwrap_or(false);
                if let Some(t) = self.inline_call(&last, c.args.iter().collect(), is_self_path && first_is_self) {
                    let r = c.span().byte_range();
                    self.ins.push(Edit { start: r.start, end: r.end, text: t, rule: "E10" });
                    return;
                }
            }
            if p.qself.is_some() {
                // E4b: <Self as Trait<_>>::name  ->  Self::name
                let r = p.span().byte_range();
                self.ins.push(Edit { start: r.start, end: r.end, text: format!("Self::{}", last), rule: "E4b" });
            }
            if self.ghost.iter().any(|g| *g == last) {
                let close = start(c.paren_token.span.close());
                let txt = if c.args.is_empty() { "Tracked(log)" } else { ", Tracked(log)" };
                self.ins.push(Edit { start: close, end: close, text: txt.to_string(), rule: "E3" });
            }
        }
        syn::visit::visit_expr_call(self, c);
    }
    fn visit_expr_closure(&mut self, c: &'ast syn::ExprClosure) {
        self.closure_no += 1;
        if let Some(spec) = self.closure_specs.get(&self.closure_no) {
            self.used_closure.push(self.closure_no);
            let after_params = end(c.or2_token.span());
            let b = c.body.span().byte_range();
            let is_block = matches!(&*c.body, syn::Expr::Block(_));
            if is_block {
                self.ins.push(Edit { start: after_params, end: after_params, text: format!(" {} ", spec), rule: "E6-closure" });
            } else {
                self.ins.push(Edit { start: after_params, end: after_params, text: format!(" {} {{ ", spec), rule: "E6-closure" });
                self.ins.push(Edit { start: b.end, end: b.end, text: " }".to_string(), rule: "E6-closure" });
            }
        }
        syn::visit::visit_expr_closure(self, c);
    }
    fn visit_macro(&mut self, mac: &'ast syn::Macro) {
        // E11: `debug_assert!(e)`, `debug_assert_eq!(a, b)`, `debug_assert_ne!(a, b)` -- run-time checks that exist in debug builds
        // only -- become calls of `verif_debug_assert(cond)` (requires cond): the obligation that the check can never fire, so that
        // debug and release builds agree (C17).  A message argument is dropped; the condition text is the repo's.
        let name = mac.path.segments.last().map(|s| s.ident.to_string()).unwrap_or_default();
        if name == "debug_assert" || name == "debug_assert_eq" || name == "debug_assert_ne" {
            use syn::punctuated::Punctuated;
            if let Ok(args) = mac.parse_body_with(Punctuated::<syn::Expr, syn::Token![,]>::parse_terminated) {
                let need = if name == "debug_assert" { 1 } else { 2 };
                let (open, close) = match &mac.delimiter {
                    syn::MacroDelimiter::Paren(p) => (p.span.open(), p.span.close()),
                    syn::MacroDelimiter::Brace(p) => (p.span.open(), p.span.close()),
                    syn::MacroDelimiter::Bracket(p) => (p.span.open(), p.span.close()),
                };
                if args.len() >= need {
                    let a0 = args[0].span().byte_range();
                    self.ins.push(Edit { start: start(mac.path.span()), end: a0.start, text: "verif_debug_assert((".to_string(), rule: "E11" });
                    let last_end = if need == 2 {
                        let a1 = args[1].span().byte_range();
                        self.ins.push(Edit { start: a0.end, end: a1.start, text: (if name == "debug_assert_eq" { ") == (" } else { ") != (" }).to_string(), rule: "E11" });
                        a1.end
                    } else { a0.end };
                    self.ins.push(Edit { start: last_end, end: end(close), text: "))".to_string(), rule: "E11" });
                    let _ = open;
                    for a in args.iter().take(need) { self.visit_expr(a); }
                    return;
                }
            }
        }
        syn::visit::visit_macro(self, mac);
    }
    fn visit_expr_assign(&mut self, a: &'ast syn::ExprAssign) {
        // E9: `_ = e;` (destructuring assignment to the wildcard, unsupported by Verus) -> `let _ = e;` (same meaning)
        if matches!(&*a.left, syn::Expr::Infer(_)) {
            let p = start(a.left.span());
            self.ins.push(Edit { start: p, end: p, text: "let ".to_string(), rule: "E9" });
        }
        syn::visit::visit_expr_assign(self, a);
    }
    fn visit_expr_while(&mut self, w: &'ast syn::ExprWhile) {
        self.loop_body(&w.body);
        syn::visit::visit_expr_while(self, w);
    }
    fn visit_expr_loop(&mut self, l: &'ast syn::ExprLoop) {
        self.loop_body(&l.body);
        syn::visit::visit_expr_loop(self, l);
    }
    fn visit_expr_for_loop(&mut self, l: &'ast syn::ExprForLoop) {
        self.loop_body(&l.body);
        syn::visit::visit_expr_for_loop(self, l);
    }
}

fn norm(s: &str) -> String {
    s.split_whitespace().collect::<Vec<_>>().join("").replace("crate::", "")
}

fn type_last_ident(t: &syn::Type) -> Option<String> {
    match t {
        syn::Type::Path(p) => p.path.segments.last().map(|s| s.ident.to_string()),
        syn::Type::Reference(r) => type_last_ident(&r.elem),
        _ => None,
    }
}

fn find_fn<'f>(file: &'f syn::File, sel: &str, name: &str) -> Option<(&'f syn::Signature, &'f syn::Block)> {
    fn walk<'f>(items: &'f [syn::Item], sel: &str, name: &str) -> Option<(&'f syn::Signature, &'f syn::Block)> {
        if sel == "free" {
            for item in items {
                match item {
                    syn::Item::Fn(f) if f.sig.ident == name => return Some((&f.sig, &f.block)),
                    syn::Item::Mod(m) => {
                        if let Some((_, its)) = &m.content {
                            if let Some(r) = walk(its, sel, name) {
                                return Some(r);
                            }
                        }
                    }
                    _ => {}
                }
            }
            return None;
        }
        if let Some(tr) = sel.strip_prefix("trait ") {
            for item in items {
                if let syn::Item::Trait(t) = item {
                    if t.ident == tr.trim() {
                        for ti in &t.items {
                            if let syn::TraitItem::Fn(f) = ti {
                                if f.sig.ident == name {
                                    return f.default.as_ref().map(|b| (&f.sig, b));
                                }
                            }
                        }
                    }
                }
            }
            return None;
        }
        let (want_trait, want_ty) = if let Some(rest) = sel.strip_prefix("inherent ") {
            (None, rest.trim().to_string())
        } else {
            let mut it = sel.split(" for ");
            (Some(it.next()?.trim().to_string()), it.next()?.trim().to_string())
        };
        for item in items {
            if let syn::Item::Impl(im) = item {
                let ty_ok = type_last_ident(&im.self_ty).map(|s| s == want_ty).unwrap_or(false);
                let tr = im.trait_.as_ref().and_then(|(_, p, _)| p.segments.last().map(|s| s.ident.to_string()));
                if ty_ok && tr == want_trait {
                    for ii in &im.items {
                        if let syn::ImplItem::Fn(f) = ii {
                            if f.sig.ident == name {
                                return Some((&f.sig, &f.block));
                            }
                        }
                    }
                }
            }
        }
        None
    }
    walk(&file.items, sel, name)
}

fn find_struct<'f>(file: &'f syn::File, name: &str) -> Option<&'f syn::ItemStruct> {
    for item in &file.items {
        if let syn::Item::Struct(s) = item {
            if s.ident == name {
                return Some(s);
            }
        }
    }
    None
}

fn json_str(s: &str) -> String {
    let mut o = String::from("\"");
    for c in s.chars() {
        match c {
            '"' => o.push_str("\\\""),
            '\\' => o.push_str("\\\\"),
            '\n' => o.push_str("\\n"),
            '\r' => o.push_str("\\r"),
            '\t' => o.push_str("\\t"),
            c if (c as u32) < 0x20 => {
                let _ = write!(o, "\\u{:04x}", c as u32);
            }
            c => o.push(c),
        }
    }
    o.push('"');
    o
}

fn expand_includes(path: &std::path::Path, depth: usize) -> String {
    if depth > 8 {
        undecided(format!("include depth exceeded at {}", path.display()));
    }
    let txt = std::fs::read_to_string(path).unwrap_or_else(|e| undecided(format!("template {}: {}", path.display(), e)));
    let dir = path.parent().unwrap_or(std::path::Path::new("."));
    let mut out = String::new();
    for l in txt.lines() {
        if let Some(r) = l.trim().strip_prefix("//@include ") {
            out.push_str(&expand_includes(&dir.join(r.trim()), depth + 1));
        } else {
            out.push_str(l);
            out.push('\n');
        }
    }
    out
}

fn main() {
    let args: Vec<String> = std::env::args().collect();
    if args.len() != 5 {
        eprintln!("usage: orx-extract <template.vrs> <repo-root> <out.rs> <out.map.json>");
        std::process::exit(2);
    }
    let tpl = expand_includes(std::path::Path::new(&args[1]), 0);
    let root = &args[2];

    let mut ghost: Vec<String> = vec![];
    let mut matchcalls: Vec<String> = vec![];
    let mut closure_specs: HashMap<String, HashMap<usize, String>> = HashMap::new();
    let mut loop_specs: HashMap<String, HashMap<usize, String>> = HashMap::new();
    let mut replaces: HashMap<String, Vec<(String, String, bool)>> = HashMap::new();
    let mut replacews: HashMap<String, Vec<(String, String)>> = HashMap::new();
    for l in tpl.lines() {
        let t = l.trim();
        if let Some(r) = t.strip_prefix("//@ghostcalls ") {
            ghost.extend(r.split(',').map(|x| x.trim().to_string()).filter(|x| !x.is_empty()));
        }
        if let Some(r) = t.strip_prefix("//@matchcalls ") {
            matchcalls.extend(r.split(',').map(|x| x.trim().to_string()).filter(|x| !x.is_empty()));
        }
        for (pre, map) in [("//@closure ", &mut closure_specs), ("//@loop ", &mut loop_specs)] {
            if let Some(r) = t.strip_prefix(pre) {
                let (head, spec) = r.split_once('|').unwrap_or_else(|| undecided(format!("bad directive: {}", t)));
                let mut h = head.split_whitespace();
                let f = h.next().unwrap_or_else(|| undecided(format!("bad directive: {}", t))).to_string();
                let n: usize = h.next().and_then(|x| x.parse().ok()).unwrap_or_else(|| undecided(format!("bad directive: {}", t)));
                map.entry(f).or_default().insert(n, spec.trim().to_string());
            }
        }
        // whitespace-insensitive variant for multi-line source text that may itself contain `|`: fields separated by ` ::: `
        if let Some(r) = t.strip_prefix("//@replacew ") {
            let parts: Vec<&str> = r.split(" ::: ").map(|x| x.trim()).collect();
            if parts.len() != 3 {
                undecided(format!("bad directive: {}", t));
            }
            replacews.entry(parts[0].to_string()).or_default().push((parts[1].to_string(), parts[2].to_string()));
        }
        for (pre, optional) in [("//@replace? ", true), ("//@replace ", false)] {
            if let Some(r) = t.strip_prefix(pre) {
                let parts: Vec<&str> = r.split('|').map(|x| x.trim()).collect();
                if parts.len() != 3 {
                    undecided(format!("bad directive: {}", t));
                }
                replaces.entry(parts[0].to_string()).or_default().push((parts[1].to_string(), parts[2].to_string(), optional));
            }
        }
    }

    // names of all functions the template defines (a repo helper of the same name is called, not inlined)
    let mut template_fns: std::collections::HashSet<String> = std::collections::HashSet::new();
    for l in tpl.lines() {
        let code = l.split("//").next().unwrap_or("");
        if let Some(i) = code.find("fn ") {
            let rest = &code[i + 3..];
            let n: String = rest.chars().take_while(|c| c.is_alphanumeric() || *c == '_').collect();
            if !n.is_empty() { template_fns.insert(n); }
        }
    }
    for g in &ghost { template_fns.insert(g.clone()); }
    let mut cache: HashMap<String, (String, syn::File)> = HashMap::new();
    let mut out = String::new();
    let mut out_line = 1usize; // next line number to be written (1-based)
    let mut map_entries: Vec<String> = vec![];
    let mut struct_checks: Vec<String> = vec![];

    let load = |cache: &mut HashMap<String, (String, syn::File)>, file: &str| {
        if !cache.contains_key(file) {
            let src = std::fs::read_to_string(format!("{}/{}", root, file)).unwrap_or_else(|_| undecided(format!("LOST-ANCHOR file {}", file)));
            let parsed = syn::parse_file(&src).unwrap_or_else(|e| undecided(format!("PARSE {}: {}", file, e)));
            cache.insert(file.to_string(), (src, parsed));
        }
    };

    for l in tpl.lines() {
        let t = l.trim();
        let is_paste = t.starts_with("//@paste ");
        let is_sig = t.starts_with("//@sig ") || t.starts_with("//@sig? ");
        let sig_soft = t.starts_with("//@sig? ");
        let is_struct = t.starts_with("//@struct ");
        if !is_paste && !is_sig && !is_struct {
            out.push_str(l);
            out.push('\n');
            out_line += 1;
            continue;
        }
        let body = t.splitn(2, ' ').nth(1).unwrap_or("");
        let parts: Vec<&str> = body.split('|').map(|x| x.trim()).collect();
        if is_struct {
            if parts.len() != 3 {
                undecided(format!("bad directive: {}", t));
            }
            let (file, name, expected) = (parts[0], parts[1], parts[2]);
            load(&mut cache, file);
            let (src, parsed) = cache.get(file).unwrap();
            let s = find_struct(parsed, name).unwrap_or_else(|| undecided(format!("LOST-ANCHOR struct {} in {}", name, file)));
            let real = &src[s.fields.span().byte_range()];
            if norm(real) != norm(expected) {
                undecided(format!("STRUCT-CHANGED {}::{}\n  expected {}\n  found    {}", file, name, expected, real));
            }
            struct_checks.push(format!("{{\"file\":{},\"struct\":{},\"fields\":{}}}", json_str(file), json_str(name), json_str(&norm(real))));
            // keep the line count stable for the reader: emit the directive as a comment
            out.push_str(l);
            out.push('\n');
            out_line += 1;
            continue;
        }
        if parts.len() < 3 {
            undecided(format!("bad directive: {}", t));
        }
        let (mut file, mut sel, name) = (parts[0].to_string(), parts[1].to_string(), parts[2]);
        // optional trailing fields of //@paste and //@sig:
        //   `as <alias>`                 the key under which //@closure, //@loop and //@replace directives address this paste
        //   `override <file> ; <sel>`    for a trait DEFAULT method instantiated for one implementor (rule E4): if that implementor
        //                                overrides the method, its own body is the code that runs and is pasted instead
        let mut key: &str = name;
        let mut overridden = false;
        for extra in parts.iter().skip(3) {
            if let Some(a) = extra.strip_prefix("as ") { if is_paste { key = a.trim(); } }
            if let Some(o) = extra.strip_prefix("override ") {
                if let Some((f2, s2)) = o.split_once(';') {
                    let (f2, s2) = (f2.trim(), s2.trim());
                    load(&mut cache, f2);
                    let (_, parsed2) = cache.get(f2).unwrap();
                    if find_fn(parsed2, s2, name).is_some() { file = f2.to_string(); sel = s2.to_string(); overridden = true; }
                }
            }
        }
        let (file, sel) = (file.as_str(), sel.as_str());
        load(&mut cache, file);
        let (src, parsed) = cache.get(file).unwrap();
        let (fsig, fblock) = find_fn(parsed, sel, name).unwrap_or_else(|| undecided(format!("LOST-ANCHOR {} | {} | {}", file, sel, name)));
        if is_sig {
            if parts.len() < 4 {
                undecided(format!("bad directive: {}", t));
            }
            let real = &src[fsig.span().byte_range()];
            // (an implementor's override of a default method may spell its types concretely: the template's own Verus signature
            // then decides whether the pasted body fits)
            if !overridden && !sig_soft && norm(real) != norm(parts[3]) {
                undecided(format!("SIGNATURE-CHANGED {}::{}\n  expected {}\n  found    {}", sel, name, parts[3], real));
            }
            out.push_str(l);
            out.push('\n');
            out_line += 1;
            continue;
        }
        let br = fblock.span().byte_range();
        let empty = HashMap::new();
        // helper table for E10: functions of this repo file that the template does not define
        let mut helpers: HashMap<String, Helper> = HashMap::new();
        {
            let self_ty: Option<String> = if sel == "free" { None } else if let Some(r) = sel.strip_prefix("inherent ") { Some(r.trim().to_string()) }
                else if sel.starts_with("trait ") { None } else { sel.split(" for ").nth(1).map(|x| x.trim().to_string()) };
            for item in &parsed.items {
                match item {
                    syn::Item::Fn(f) => { helpers.insert(f.sig.ident.to_string(), Helper { sig: &f.sig, block: &f.block, generics: f.sig.generics.type_params().map(|t| t.ident.to_string()).collect() }); }
                    syn::Item::Impl(im) => {
                        if let (Some(st), Some(ty)) = (&self_ty, type_last_ident(&im.self_ty)) {
                            if *st == ty {
                                for ii in &im.items { if let syn::ImplItem::Fn(f) = ii { helpers.insert(f.sig.ident.to_string(), Helper { sig: &f.sig, block: &f.block, generics: im.generics.type_params().chain(f.sig.generics.type_params()).map(|t| t.ident.to_string()).collect() }); } }
                            }
                        }
                    }
                    _ => {}
                }
            }
            helpers.retain(|k, _| !template_fns.contains(k) && k != name);
        }
        let mut ed = Edits {
            src,
            helpers: &helpers,
            depth: 0,
            inlined: vec![],
            ghost: &ghost,
            matchcalls: &matchcalls,
            closure_specs: closure_specs.get(key).unwrap_or(&empty),
            loop_specs: loop_specs.get(key).unwrap_or(&empty),
            closure_no: 0,
            loop_no: 0,
            used_closure: vec![],
            used_loop: vec![],
            ins: vec![],
        };
        ed.visit_block(fblock);
        for k in closure_specs.get(key).map(|m| m.keys().cloned().collect::<Vec<_>>()).unwrap_or_default() {
            if !ed.used_closure.contains(&k) && ed.closure_no > 0 {
                undecided(format!("LOST-ANCHOR closure #{} of {} ({} closures found)", k, name, ed.closure_no));
            }
        }
        for k in loop_specs.get(key).map(|m| m.keys().cloned().collect::<Vec<_>>()).unwrap_or_default() {
            if !ed.used_loop.contains(&k) && ed.loop_no > 0 {
                undecided(format!("LOST-ANCHOR loop #{} of {} ({} loops found)", k, name, ed.loop_no));
            }
        }
        let n_closures = ed.closure_no;
        let n_loops = ed.loop_no;
        let mut ins = ed.ins;
        let (lo, hi) = (br.start + 1, br.end - 1);
        // declared textual replacements
        if let Some(rs) = replaces.get(key) {
            for (from, to, optional) in rs {
                let hay = &src[lo..hi];
                let mut found = 0;
                let mut pos = 0;
                while let Some(i) = hay[pos..].find(from.as_str()) {
                    let s = lo + pos + i;
                    ins.push(Edit { start: s, end: s + from.len(), text: to.clone(), rule: "replace" });
                    pos += i + from.len();
                    found += 1;
                }
                if found == 0 && !optional {
                    undecided(format!("RULE-NO-LONGER-APPLIES replace `{}` in {}", from, name));
                }
            }
        }
        if let Some(rs) = replacews.get(key) {
            for (from, to) in rs {
                // compare with all whitespace removed; map the match back to byte offsets of the repo text
                let hay = &src[lo..hi];
                let mut idx: Vec<usize> = vec![];
                let mut squeezed = String::new();
                for (i, ch) in hay.char_indices() { if !ch.is_whitespace() { idx.push(i); squeezed.push(ch); } }
                let want: String = from.chars().filter(|c| !c.is_whitespace()).collect();
                // (byte offsets in `squeezed` -> index into idx: count chars)
                match squeezed.find(want.as_str()) {
                    Some(b) => {
                        let c0 = squeezed[..b].chars().count();
                        let c1 = c0 + want.chars().count();
                        let s0 = lo + idx[c0];
                        let last = idx[c1 - 1];
                        let s1 = lo + last + hay[last..].chars().next().map(|c| c.len_utf8()).unwrap_or(1);
                        ins.push(Edit { start: s0, end: s1, text: to.clone(), rule: "replace" });
                    }
                    None => undecided(format!("RULE-NO-LONGER-APPLIES replacew `{}` in {}", from, name)),
                }
            }
        }
        ins.sort_by_key(|e| (e.start, std::cmp::Reverse(e.end)));
        // paste the inside of the braces, verbatim, with the edits
        let mut cur = lo;
        let line0 = fblock.span().start().line;
        let line1 = fblock.span().end().line;
        let _ = writeln!(out, "        // <<< {}:{} {}::{} (verbatim)", file, line0, sel, name);
        out_line += 1;
        let gen_first = out_line;
        let mut pasted = String::new();
        let mut applied: Vec<Edit> = vec![];
        for e in ins {
            if e.start < cur {
                if e.rule == "replace" || e.rule == "E4b" {
                    undecided(format!("overlapping edits in {}", name));
                }
                continue;
            }
            pasted.push_str(&src[cur..e.start]);
            pasted.push_str(&e.text);
            cur = e.end;
            applied.push(e);
        }
        pasted.push_str(&src[cur..hi]);
        // erasure check: undoing the applied edits on the pasted text gives back the repo text
        {
            let mut back = String::new();
            let mut p = 0usize; // position in pasted
            let mut q = lo; // position in src
            for e in &applied {
                let keep = e.start - q;
                back.push_str(&pasted[p..p + keep]);
                p += keep;
                if &pasted[p..p + e.text.len()] != e.text {
                    undecided(format!("erasure check failed in {}", name));
                }
                p += e.text.len();
                back.push_str(&src[e.start..e.end]);
                q = e.end;
            }
            back.push_str(&pasted[p..]);
            if back != src[lo..hi] {
                undecided(format!("erasure check failed in {}", name));
            }
        }
        out.push_str(&pasted);
        out_line += pasted.matches('\n').count();
        out.push_str("\n        // >>>\n");
        out_line += 2;
        let gen_last = out_line - 2;
        let edits_json: Vec<String> = applied
            .iter()
            .map(|e| format!("{{\"rule\":{},\"at\":{},\"from\":{},\"to\":{}}}", json_str(e.rule), e.start, json_str(&src[e.start..e.end]), json_str(&e.text)))
            .collect();
        map_entries.push(format!(
            "{{\"fn\":{},\"inlined_helpers\":{},\"overridden\":{},\"sel\":{},\"file\":{},\"repo_line_first\":{},\"repo_line_last\":{},\"gen_line_first\":{},\"gen_line_last\":{},\"byte_lo\":{},\"byte_hi\":{},\"closures\":{},\"loops\":{},\"edits\":[{}]}}",
            json_str(name), json_str(&applied.iter().filter(|e| e.rule == "E10").map(|e| e.text.split("/* inlined ").nth(1).and_then(|x| x.split(" */").next()).unwrap_or("?").to_string()).collect::<Vec<_>>().join(",")), overridden, json_str(sel), json_str(file), line0, line1, gen_first, gen_last, lo, hi, n_closures, n_loops, edits_json.join(",")
        ));
    }
    std::fs::write(&args[3], out).unwrap_or_else(|e| undecided(format!("write {}: {}", args[3], e)));
    let map = format!("{{\"pastes\":[\n{}\n],\"structs\":[{}]}}\n", map_entries.join(",\n"), struct_checks.join(","));
    std::fs::write(&args[4], map).unwrap_or_else(|e| undecided(format!("write {}: {}", args[4], e)));
}
