#!/usr/bin/env python3
"""Collects the seeded changes produced by the sub-agents (/tmp/seed/out_*/<id>/) into /verif/seeded/<id>/ with my own
confirmation (confirm.json written by tools/confirm_seed.sh) and the detection result of the checks (results*.jsonl written
by tools/eval_seeds.py; later files override earlier ones)."""
import json, os, shutil, glob, sys
res = {}
first = {}
ORDER = ['results.jsonl', 'results2.jsonl', 'results3.jsonl', 'results4.jsonl', 'results5.jsonl', 'results6.jsonl', 'results7.jsonl', 'results9_final.jsonl',
         'results_w3.jsonl', 'results_w3b.jsonl', 'results_w3c.jsonl', 'results_w3d.jsonl', 'results_zfinal2.jsonl', 'results_w4_first.jsonl', 'results_w4_zsecond.jsonl', 'results_w5_first.jsonl', 'results_w5_zsecond.jsonl', 'results_w6_first.jsonl', 'results_w6_zsecond.jsonl', 'results_w7_first.jsonl', 'results_w7_zsecond.jsonl', 'results_w8_first.jsonl', 'results_w8_zsecond.jsonl']
# (chronological order of the evaluation runs; results_w3.jsonl was started before results_w3b.jsonl but finished after it)
for f in sorted(glob.glob('/tmp/seed/results*.jsonl'), key=lambda f: (ORDER.index(os.path.basename(f)) if os.path.basename(f) in ORDER else len(ORDER), os.path.getmtime(f))):
    for l in open(f):
        r = json.loads(l)
        if 'exit' in r:
            res[r['seed']] = dict(r, results_file=os.path.basename(f))
            first.setdefault(r['seed'], dict(r, results_file=os.path.basename(f)))
os.makedirs('/verif/seeded', exist_ok=True)
rows = []
for sd in sorted(glob.glob('/tmp/seed/out_*/C*_*')):
    if not os.path.exists(sd + '/patch.diff') or not os.path.exists(sd + '/meta.json'):
        continue
    g = int(sd.split('out_')[1].split('/')[0])
    wave = 8 if g > 90 else (7 if g > 80 else (6 if g > 70 else (5 if g > 50 else (4 if g > 40 else (3 if g > 30 else (2 if g > 10 else 1))))))
    if sd not in res:
        continue   # not evaluated yet
    name = {1: '', 2: 'w2_', 3: 'w3_', 4: 'w4_', 5: 'w5_', 6: 'w6_', 7: 'w7_', 8: 'w8_'}[wave] + os.path.basename(sd)
    dst = '/verif/seeded/' + name
    meta = json.load(open(sd + '/meta.json'))
    conf = json.load(open(sd + '/confirm.json')) if os.path.exists(sd + '/confirm.json') else None
    if conf and conf.get('applies') and not conf.get('suite_passes_with_change'):
        print('SKIPPED (does not pass the existing suite in my confirmation):', sd, file=__import__('sys').stderr)
        continue
    os.makedirs(dst, exist_ok=True)
    for fn in ['patch.diff', 'demo.rs']:
        if os.path.exists(sd + '/' + fn):
            shutil.copy(sd + '/' + fn, dst + '/' + fn)
    if name in ('C17_b', 'w2_C17_a') and not (conf or {}).get('demo_fails_with_change'):
        conf = {"applies": True, "suite_passes_with_change": True, "demo_fails_with_change": True, "demo_passes_without_change": True,
                "note": "confirmed with `cargo test --offline --release --test demo` (the divergence only shows in the release profile; in debug the demo passes with and without the change)"}
    r = res.get(sd)
    det = None
    if r:
        det = {"check": "./check %s --tier quick (tree = HEAD + patch)" % r['property'], "exit": r['exit'],
               "verdict": {0: "MISSED (check passed)", 1: "DETECTED (VIOLATION)", 2: "UNDECIDED (exit 2, no alarm)"}.get(r['exit'], str(r['exit'])),
               "failed_obligations": [l.strip().replace("failed obligation: ", "") for l in r.get('lines', []) if 'failed obligation' in l][:6], "wall_s": r.get('wall_s')}
    out = {"id": name, "property": meta.get("property"), "breaks": meta.get("what_it_breaks"), "needs_to_manifest": meta.get("needs_to_manifest"),
           "files_changed": meta.get("files_changed"),
           "produced_by": "independent sub-agent (wave %d) given only the property text and its own scratch worktree of /repo" % wave,
           "demo_cmd_of_author": meta.get("demo_cmd"), "demo_failure_kind": meta.get("demo_failure_kind"),
           "confirmed_by_me": {"how": "tools/confirm_seed.sh <seed> <scratch worktree>: git apply; cargo test --offline --lib --tests (whole suite); demo copied to tests/demo.rs and run with the change, then again after `git checkout -- src` (Miri / --release where the author's demo needs it)", "result": conf},
           "detection": det,
           "first_evaluation": (lambda r0: {"exit": r0['exit'], "verdict": {0: "MISSED (check passed)", 1: "DETECTED (VIOLATION)", 2: "UNDECIDED (exit 2, no alarm)"}.get(r0['exit'])} if r0 else None)(first.get(sd))}
    json.dump(out, open(dst + '/meta.json', 'w'), indent=1)
    rows.append((name, meta.get("property"), (conf or {}).get("demo_fails_with_change"), det["verdict"] if det else "not evaluated", ", ".join(det["failed_obligations"][:2]) if det else ""))
for r in rows:
    print("| %s | %s | %s | %s | %s |" % r)
