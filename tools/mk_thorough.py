#!/usr/bin/env python3
"""Thorough-tier variants derived from the quick harness files: kani/vec_n4.rs = kani/vec.rs with vectors up to length 4."""
import os, re
d = os.path.dirname(os.path.dirname(os.path.abspath(__file__)))
s = open(os.path.join(d, 'kani/vec.rs')).read()
s = s.replace("mod vk_vec {", "mod vk_vec_n4 {").replace("const N: usize = 3;", "const N: usize = 4;")
s = re.sub(r"name=vec_(\w+)", r"name=vec_\1_n4 tier=thorough", s)
s = re.sub(r"fn vec_(\w+)\(\)", r"fn vec_\1_n4()", s)
s = s.replace("#[kani::unwind(5)]", "#[kani::unwind(6)]").replace('bound="len <= 3', 'bound="len <= 4')
s = re.sub(r' inputs=[\w,]+ scenario="[^"]*"', '', s)
s = s.replace("// ConIterOfVec: memory effects", "// DERIVED from kani/vec.rs by tools/mk_thorough.py (thorough tier: vectors up to length 4).  ConIterOfVec: memory effects")
open(os.path.join(d, 'kani/vec_n4.rs'), 'w').write(s)

# kani/seq_s4.rs = the no-wrap sequential-cursor harnesses of kani/seq.rs with FOUR symbolic operations instead of three
q = open(os.path.join(d, 'kani/seq.rs')).read()
q = q.replace("mod vk_seq {", "mod vk_seq_s4 {")
# drop the full-domain variants (their known finding W is identified by the quick harnesses' names) and everything from constructors_into on
q = re.sub(r"    // @harness name=seq_(slice|range)_fulldomain [^\n]*\n    #\[kani::proof\]\n    #\[kani::unwind\(\d+\)\]\n    fn seq_\1_fulldomain\(\) \{[^\n]*\}\n", "", q)
j = q.index("    // @harness name=constructors_into")
j = q.rfind("\n\n", 0, j)
q = q[:j] + "\n}\n"
q = q.replace("while step < 3 {", "while step < 4 {")
q = re.sub(r"name=seq_(slice|range)_nowrap group=default,nodebug props_nodebug=C17 ", r"name=seq_\1_nowrap_s4 tier=thorough ", q)
q = re.sub(r"fn seq_(slice|range)_nowrap\(\)", r"fn seq_\1_nowrap_s4()", q)
q = q.replace("three symbolic operations", "four symbolic operations").replace("#[kani::unwind(6)]", "#[kani::unwind(7)]").replace("#[kani::unwind(5)]", "#[kani::unwind(6)]")
assert q.count("tier=thorough") == 2 and q.count("while step < 4 {") == 2 and "fulldomain()" not in q
open(os.path.join(d, 'kani/seq_s4.rs'), 'w').write("// DERIVED from kani/seq.rs by tools/mk_thorough.py (thorough tier: four operations per history).\n" + q)
