#!/usr/bin/env python3
"""Thorough-tier variants derived from the quick harness files: kani/vec_n4.rs = kani/vec.rs with vectors up to length 4."""
import os, re
d = os.path.dirname(os.path.dirname(os.path.abspath(__file__)))
s = open(os.path.join(d, 'kani/vec.rs')).read()
s = s.replace("mod vk_vec {", "mod vk_vec_n4 {").replace("const N: usize = 3;", "const N: usize = 4;")
s = re.sub(r"name=vec_(\w+)", r"name=vec_\1_n4 tier=thorough", s)
s = re.sub(r"fn vec_(\w+)\(\)", r"fn vec_\1_n4()", s)
s = s.replace("#[kani::unwind(5)]", "#[kani::unwind(6)]").replace('bound="len <= 3', 'bound="len <= 4')
s = re.sub(r' inputs=[\w,]+ scenario="[^"]*"', '', s)
s = s.replace("// ConIterOfVec: memory effects", "// DERIVED from kani/vec.rs by tools/mk_thorough.py (thorough tier: vectors up to length 4).  ConIterOfVec: memory effects")
open(os.path.join(d, 'kani/vec_n4.rs'), 'w').write(s)
