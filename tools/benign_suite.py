import sys, os, subprocess
sys.path.insert(0,'/verif/lib')
import vunit
WT=os.environ.get('WT','/tmp/pb/wt')  # a scratch worktree of /repo (git -C /repo worktree add --detach <dir> HEAD)
# benign refactors: behaviour-preserving edits; expected: no failed obligation (exit 2 "undecided" is tolerable, an alarm is not)
muts=[
 ("rename local", "slice", "src/iter/implementors/slice.rs", [("let begin_idx = self\n            .progress_and_get_begin_idx(n)\n            .unwrap_or(self.initial_len());\n        let end_idx = begin_idx", "let first = self\n            .progress_and_get_begin_idx(n)\n            .unwrap_or(self.initial_len());\n        let begin_idx = first;\n        let end_idx = begin_idx")]),
 ("if instead of match cmp", "slice", "src/iter/implementors/slice.rs", [("        match begin_idx.cmp(&self.initial_len()) {\n            Ordering::Less => Some(begin_idx),\n            _ => None,\n        }", "        if begin_idx < self.initial_len() {\n            Some(begin_idx)\n        } else {\n            None\n        }")]),
 ("extra harmless load", "slice", "src/iter/implementors/slice.rs", [("        let begin_idx = self.counter().fetch_and_add(number_to_fetch);\n        match begin_idx.cmp(&self.initial_len())", "        let _peek = self.counter().current();\n        let begin_idx = self.counter().fetch_and_add(number_to_fetch);\n        match begin_idx.cmp(&self.initial_len())")]),
 ("min via if", "vec", "src/iter/implementors/vec.rs", [("let remaining_vec = unsafe { self.split_off_right(current.min(self.vec_len)) };", "let k = if current < self.vec_len { current } else { self.vec_len };\n        let remaining_vec = unsafe { self.split_off_right(k) };")]),
 ("SeqCst instead of AcqRel", "slice", "src/iter/atomic_counter.rs", [("self.current.fetch_add(len, Ordering::AcqRel)", "self.current.fetch_add(len, Ordering::SeqCst)")]),
 ("try_get_len via saturating_sub", "slice", "src/iter/implementors/slice.rs", [("        let len = match current.cmp(&initial_len) {\n            std::cmp::Ordering::Less => initial_len - current,\n            _ => 0,\n        };", "        let len = initial_len.saturating_sub(current);")]),
 ("get: reorder flag poll", "iter", "src/iter/implementors/iter.rs", [("                Ordering::Less => return None,\n\n                // item_idx > yielded_count => we need the other items to be yielded\n                Ordering::Greater => {\n                    if self.completed.load(atomic::Ordering::Relaxed) {\n                        return None;\n                    }\n                }\n            }\n        }\n    }\n\n    fn fetch_n", "                Ordering::Less => return None,\n\n                // item_idx > yielded_count => we need the other items to be yielded\n                Ordering::Greater => {}\n            }\n        }\n    }\n\n    fn fetch_n")]),
 ("inner iter: while-style rewrite", "bufinner", "src/iter/buffered/iter.rs", [("        if self.current_idx < self.initial_len {\n            let next = self.values[self.current_idx].take();", "        if self.initial_len > self.current_idx {\n            let next = self.values[self.current_idx].take();")]),
]
for name, unit, f, edits in muts:
    subprocess.run(["git","-C",WT,"checkout","-q","--","."])
    p=os.path.join(WT,f); s=open(p).read()
    ok=True
    for a,b in edits:
        if a not in s: ok=False; print(name, "EDIT DOES NOT APPLY"); break
        s=s.replace(a,b,1)
    if not ok: continue
    open(p,'w').write(s)
    b=subprocess.run(["cargo","build","--offline"],cwd=WT,env=dict(os.environ,CARGO_TARGET_DIR=WT+"/target"),stdout=subprocess.PIPE,stderr=subprocess.STDOUT,text=True)
    if b.returncode!=0: print(name,"DOES NOT COMPILE", b.stdout[-300:]); continue
    try:
        u=vunit.Unit(unit).extract(WT); r=u.verify()
        print("%-32s unit=%-8s undecided=%s failed=%s" % (name, unit, (r.get('undecided') or '')[:100], sorted(r['failed'])[:4]))
    except Exception as e: print(name, 'UNDECIDED(extract):', str(e)[:160])
subprocess.run(["git","-C",WT,"checkout","-q","--","."])
