#!/usr/bin/env python3
"""Mutation self-test of the contracts added in the second / third extension (fetch_n, try_get_len, has_more of ConIterOfIter; the chunk
iterator TakenRange): each mutant of the real source must make a named Verus obligation fail (Verus only -- fast).
usage: WT=<scratch worktree of /repo> tools/mutants_new_units.py"""
import sys, os, subprocess
sys.path.insert(0, os.path.join(os.path.dirname(os.path.dirname(os.path.abspath(__file__))), "lib"))
import vunit
WT = os.environ.get('WT', '/tmp/pb/wt')
I = "src/iter/implementors/iter.rs"; V = "src/iter/implementors/vec.rs"
muts = [
 ("iter", I, "                0 => {\n                    self.completed.store(true, atomic::Ordering::SeqCst);", "                0 => {", "chunk: end not recorded"),
 ("iter", I, "let end_idx = begin_idx.saturating_add(n);", "let end_idx = begin_idx.saturating_add(n - 1);", "chunk: one position of the reservation never pulled"),
 ("iter", I, "                _ => {\n                    let values = buffer.into_iter();\n                    let older_count = self.progress_yielded_counter(n);", "                _ => {\n                    let values = buffer.into_iter();\n                    let older_count = self.progress_yielded_counter(values.len());", "chunk: publishes only what it produced"),
 ("iter", I, "Some(NextChunk { begin_idx, values })", "Some(NextChunk { begin_idx: begin_idx + 1, values })", "chunk: wrong begin index"),
 ("iter", I, "        if n == 0 {\n            // nothing is requested: must not be mistaken for an exhausted source\n            return None;\n        }\n", "", "chunk: n == 0 reserves and sets completed"),
 ("iter", I, "            true => Some(0),\n            false => self.initial_len.map", "            true => self.initial_len,\n            false => self.initial_len.map", "len: completed ignored"),
 ("iter", I, "std::cmp::Ordering::Less => initial_len - current,", "std::cmp::Ordering::Less => initial_len - current + 1,", "len: off by one"),
 ("iter", I, "match self.completed.load(atomic::Ordering::SeqCst) {\n            true => Some(0),", "match self.completed.swap(false, atomic::Ordering::SeqCst) {\n            true => Some(0),", "len: query clears the flag"),
 ("chunkiter", V, "                self.pos += 1;\n                Some(value)", "                Some(value)", "chunk iterator: next does not advance"),
 ("chunkiter", V, "        while self.pos < self.end {\n            let ptr = unsafe { self.ptr.add(self.pos) };", "        while self.pos + 1 < self.end {\n            let ptr = unsafe { self.ptr.add(self.pos) };", "chunk iterator: last element never destroyed"),
 ("chunkiter", V, "let len = self.end - self.pos;", "let len = self.end;", "chunk iterator: len ignores consumed items"),
 ("chunkiter", V, "let value = unsafe { self.ptr.add(self.pos).read() };", "let value = unsafe { self.ptr.add(self.end - 1 - self.pos).read() };", "chunk iterator: reads from the other end (declared rewrite no longer applies -> undecided is the honest answer)"),
]
ok = True
for unit, f, a, b, what in muts:
    subprocess.run(["git", "-C", WT, "checkout", "-q", "--", "."])
    p = os.path.join(WT, f); s = open(p).read()
    if a not in s:
        print("ANCHOR-LOST", what); ok = False; continue
    open(p, 'w').write(s.replace(a, b, 1))
    try:
        u = vunit.Unit(unit).extract(WT); r = u.verify()
        verdict = "caught" if r['failed'] else ("undecided" if r.get('undecided') else "MISSED")
        if verdict == "MISSED": ok = False
        print("%-10s %-70s => %s %s" % (unit, what, verdict, sorted(r['failed'])[:3] or (r.get('undecided') or '')[:120]))
    except Exception as e:
        print("%-10s %-70s => undecided (%s)" % (unit, what, str(e)[:120]))
subprocess.run(["git", "-C", WT, "checkout", "-q", "--", "."])
sys.exit(0 if ok else 1)
