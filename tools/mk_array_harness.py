#!/usr/bin/env python3
"""kani/array.rs is derived from kani/vec.rs (same contracts, ConIterOfArray<3, _> instead of ConIterOfVec).  Re-run after editing kani/vec.rs."""
import os
d = os.path.dirname(os.path.dirname(os.path.abspath(__file__)))
s = open(os.path.join(d, 'kani/vec.rs')).read()
a = s
a = a.replace("// @module src/iter/implementors/vec.rs", "// @module src/iter/implementors/array.rs")
a = a.replace("mod vk_vec {", "mod vk_array {")
a = a.replace("// ConIterOfVec: memory effects", "// ConIterOfArray (derived from kani/vec.rs by tools/mk_array_harness.py; array length fixed at 3): memory effects")
a = a.replace('''    fn mk(len: usize) -> ConIterOfVec<D> {
        let mut v = Vec::new();
        let mut i = 0;
        while i < len { v.push(D(i)); i += 1; }
        ConIterOfVec::new(v)
    }''', '''    fn mk(_len: usize) -> ConIterOfArray<3, D> {
        ConIterOfArray::new([D(0), D(1), D(2)])
    }''')
a = a.replace("kani::assume(len <= N);", "kani::assume(len == N);")
a = a.replace("name=vec_", "name=array_").replace("fn vec_", "fn array_")
a = a.replace('''        let mut v: Vec<u64> = Vec::new();
        let mut i = 0;
        while i < len { v.push(i as u64); i += 1; }
        let it = ConIterOfVec::new(v);''', '''        let it = ConIterOfArray::new([0u64, 1, 2]);''')
a = a.replace('bound="len <= 3', 'bound="len == 3')
a = a.replace("ConIterOfVec", "ConIterOfArray")
a = a.replace("kind=vec len={len}", "kind=array")
# the zero-sized-element harness builds its vector by pushing: arrays use a literal
a = a.replace('''        let mut v = Vec::new();
        let mut i = 0;
        while i < len { v.push(Z); i += 1; }
        let it = ConIterOfArray::new(v);''', '''        let it = ConIterOfArray::new([Z, Z, Z]);''')
# arrays of length 0 and 1 (the length is a const generic: separate instances)
extra = '''
    // @harness name=array_empty props=C01,C03,C05,C10,C11,C12 kind=complete
    #[kani::proof]
    #[kani::unwind(4)]
    fn array_empty() {
        let it = ConIterOfArray::<0, D>::new([]);
        assert!(it.try_get_len() == Some(0) && it.has_more() == crate::HasMore::No, "[C11 empty-len] an empty array has nothing to yield");
        assert!(it.next_id_and_value().is_none(), "[C01 C05 empty-next] a pull on an empty array reports the end");
        assert!(it.next_chunk(2).is_none(), "[C01 C03 C05 empty-chunk] a chunk pull on an empty array reports the end");
        { let mut b = it.buffered_iter(2); assert!(b.next().is_none(), "[C01 C03 C05 empty-buffered] a buffered pull with a positive chunk size on an empty array reports the end (and does not panic)"); }
        let mut calls = 0;
        it.for_each(2, |_| calls += 1);
        it.enumerate_for_each(1, |_, _| calls += 1);
        let acc = it.fold(3, 7usize, |a, _| a + 1);
        assert!(calls == 0 && acc == 7, "[C12 C01 empty-for-each] for_each / fold on an empty array return at once without calling the function");
        let mut s = it.into_seq_iter();
        assert!(s.next().is_none(), "[C10 empty-seq] the remainder of an empty array is empty");
    }

    // @harness name=array_one props=C01,C02,C03,C08 kind=complete
    #[kani::proof]
    #[kani::unwind(4)]
    fn array_one() {
        let it = ConIterOfArray::<1, D>::new([D(0)]);
        let which: bool = kani::any();
        if which {
            let x = it.next_id_and_value();
            assert!(x.is_some() && x.as_ref().unwrap().idx == 0 && x.as_ref().unwrap().value.0 == 0, "[C01 C02 one-next] the single element is delivered with index 0");
            std::mem::forget(x);
            assert!(it.next().is_none(), "[C01 C05 one-end] then the end is reported");
            drop(it);
            assert!(drops()[0] == 0, "[C08 one-ledger] the delivered element is not dropped by the iterator");
        } else {
            { let mut b = it.buffered_iter(4); let ch = b.next(); assert!(ch.is_some(), "[C03 one-chunk] a chunk larger than the array delivers the single element"); let mut ch = ch.unwrap(); assert!(ch.begin_idx == 0 && ch.values.len() == 1, "[C02 C03 one-chunk] begin 0, length 1"); drop(ch); }
            drop(it);
            assert!(drops()[0] == 1, "[C08 one-ledger] the unconsumed chunk element is destroyed exactly once");
        }
    }
}
'''
a = a[:a.rindex("}")] + extra
open(os.path.join(d, 'kani/array.rs'), 'w').write(a)
