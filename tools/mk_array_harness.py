#!/usr/bin/env python3
"""kani/array.rs is derived from kani/vec.rs (same contracts, ConIterOfArray<3, _> instead of ConIterOfVec).  Re-run after editing kani/vec.rs."""
import os
d = os.path.dirname(os.path.dirname(os.path.abspath(__file__)))
s = open(os.path.join(d, 'kani/vec.rs')).read()
a = s
a = a.replace("// @module src/iter/implementors/vec.rs", "// @module src/iter/implementors/array.rs")
a = a.replace("mod vk_vec {", "mod vk_array {")
a = a.replace("// ConIterOfVec: memory effects", "// ConIterOfArray (derived from kani/vec.rs by tools/mk_array_harness.py; array length fixed at 3): memory effects")
a = a.replace('''    fn mk(len: usize) -> ConIterOfVec<D> {
        let mut v = Vec::new();
        let mut i = 0;
        while i < len { v.push(D(i)); i += 1; }
        ConIterOfVec::new(v)
    }''', '''    fn mk(_len: usize) -> ConIterOfArray<3, D> {
        ConIterOfArray::new([D(0), D(1), D(2)])
    }''')
a = a.replace("kani::assume(len <= N);", "kani::assume(len == N);")
a = a.replace("name=vec_", "name=array_").replace("fn vec_", "fn array_")
a = a.replace('''        let mut v: Vec<u64> = Vec::new();
        let mut i = 0;
        while i < len { v.push(i as u64); i += 1; }
        let it = ConIterOfVec::new(v);''', '''        let it = ConIterOfArray::new([0u64, 1, 2]);''')
a = a.replace('bound="len <= 3', 'bound="len == 3')
a = a.replace("ConIterOfVec", "ConIterOfArray")
a = a.replace("kind=vec len={len}", "kind=array")
open(os.path.join(d, 'kani/array.rs'), 'w').write(a)
