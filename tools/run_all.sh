#!/bin/bash
# Runs every claimed property's check (default tier quick) on /repo's current working tree and prints one line per property.
# The evidence files written by these runs (evidence/<id>.json) are the ones to commit.
tier=${1:-quick}
cd "$(dirname "$0")/.."
rc=0
for p in $(python3 -c "import json;print(' '.join(c['property_id'] for c in json.load(open('MANIFEST.json'))['checks']))"); do
  s=$(date +%s); out=$(./check $p --tier $tier 2>&1); e=$?; t=$(( $(date +%s) - s ))
  echo "$p exit=$e ${t}s $(echo "$out" | grep -E '^(OK|VIOLATION|UNDECIDED|KNOWN-FINDING)' | head -3 | cut -c1-160 | tr '\n' ' ')"
  [ $e -ne 0 ] && rc=1
done
python3-vt - <<'PY'
import json, glob, jsonschema
sch = json.load(open('/root/.vp/EVIDENCE.schema.json'))
bad = 0
for f in sorted(glob.glob('evidence/*.json')):
    try:
        d = json.load(open(f)); jsonschema.validate(d, sch)
        c = d['coverage']
        if d['level'] == 'proof' and c.get('obligations') != c.get('discharged'):
            print("evidence", f, "discharged != obligations"); bad += 1
    except Exception as e:
        print("evidence", f, "INVALID", str(e)[:200]); bad += 1
print("evidence files checked:", len(glob.glob('evidence/*.json')), "problems:", bad)
PY
exit $rc
