#!/usr/bin/env python3
"""kani/copied.rs is derived from kani/cloned.rs (src/iter/copied.rs is a textual twin of src/iter/cloned.rs)."""
import os
d = os.path.dirname(os.path.dirname(os.path.abspath(__file__)))
s = open(os.path.join(d, 'kani/cloned.rs')).read()
s = s.replace("// @module src/iter/cloned.rs", "// @module src/iter/copied.rs")
s = s.replace("mod vk_cloned {", "mod vk_copied {").replace("IntoCloned", "IntoCopied").replace(".cloned()", ".copied()")
s = s.replace("name=cloned_", "name=copied_").replace("fn cloned_", "fn copied_")
s = s.replace("X.cloned()", "X.copied()").replace("clone of", "copy of").replace("clones of", "copies of")
s = s.replace("kani/copied.rs is derived from this file (tools/mk_copied_harness.py).", "DERIVED from kani/cloned.rs by tools/mk_copied_harness.py -- do not edit.")
open(os.path.join(d, 'kani/copied.rs'), 'w').write(s)
b = open(os.path.join(d, 'kani/clonedbuf.rs')).read()
b = b.replace("cloned_buffered_chunk.rs", "copied_buffered_chunk.rs").replace("vk_clonedbuf", "vk_copiedbuf").replace("ClonedBufferedChunk", "CopiedBufferedChunk")
b = b.replace("clonedbuf_size", "copiedbuf_size").replace("cloned() adaptor", "copied() adaptor")
b = b.replace("kani/copiedbuf.rs is derived from this file (tools/mk_copied_harness.py).", "DERIVED from kani/clonedbuf.rs by tools/mk_copied_harness.py -- do not edit.")
open(os.path.join(d, 'kani/copiedbuf.rs'), 'w').write(b)
