#!/usr/bin/env python3
"""Regenerates the seed table of DESIGN.md section 12 (between the seed-table markers) from seeded/*/meta.json."""
import json, glob, os, re, collections
d = os.path.dirname(os.path.dirname(os.path.abspath(__file__)))
def key(m):
    i = m['id']; w = int(i[1]) if i.startswith('w') else 1
    return (w, i)
metas = sorted((json.load(open(f)) for f in glob.glob(os.path.join(d, 'seeded/*/meta.json'))), key=key)
rows = ["| seed | property | files changed | first evaluation (checks as they stood) | verdict of `./check <property>` now | first failed obligations |", "|---|---|---|---|---|---|"]
tot = collections.Counter(); first = collections.Counter()
for m in metas:
    det = m.get('detection') or {}
    obs = "; ".join(o.replace(" (verus)", " ⟨V⟩").replace(" (kani)", " ⟨K⟩") for o in det.get('failed_obligations', [])[:2])
    v = (det.get('verdict') or 'not evaluated').split(' ')[0]
    fe = ((m.get('first_evaluation') or {}).get('verdict') or '?').split(' ')[0].lower()
    tot[v] += 1; first[(key(m)[0], fe)] += 1
    files = ", ".join(os.path.basename(x) for x in (m.get('files_changed') or []))
    rows.append("| %s | %s | %s | %s | %s | %s |" % (m['id'], (m.get('property') or '')[:3], files, fe, v, obs))
rows.append("")
rows.append("%d changes; now: %s. First evaluation per wave (detected / undecided / missed): %s." % (
    len(metas), ", ".join("%d %s" % (n, k) for k, n in sorted(tot.items())),
    "; ".join("wave %d: %d / %d / %d" % (w, first[(w, 'detected')], first[(w, 'undecided')], first[(w, 'missed')]) for w in sorted({k[0] for k in first}))))
p = os.path.join(d, 'DESIGN.md'); s = open(p).read()
b, e = "<!-- seed-table-begin -->", "<!-- seed-table-end -->"
assert b in s and e in s
s = s[:s.index(b) + len(b)] + "\n" + "\n".join(rows) + "\n" + s[s.index(e):]
open(p, 'w').write(s)
print(rows[-1])
