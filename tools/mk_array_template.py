#!/usr/bin/env python3
"""contracts/array.vrs is derived from contracts/vec.vrs (same contracts; ConIterOfArray<N, T>, length N instead of vec_len)."""
import os, re
d = os.path.dirname(os.path.dirname(os.path.abspath(__file__)))
s = open(os.path.join(d, 'contracts/vec.vrs')).read()
s = s.replace("src/iter/implementors/vec.rs", "src/iter/implementors/array.rs").replace("src/iter/buffered/vec.rs", "src/iter/buffered/array.rs")
s = s.replace("ConIterOfVec", "ConIterOfArray").replace("BufferedVec", "BufferedArray").replace("kani/vec.rs", "kani/array.rs")
s = s.replace("the\n// vec kind", "the\n// array kind (derived from contracts/vec.vrs by tools/mk_array_template.py)")
s = s.replace("//@struct src/iter/implementors/array.rs | ConIterOfArray | { vec: UnsafeCell<ManuallyDrop<Vec<T>>>, vec_len: usize, counter: AtomicCounter, }",
              "//@struct src/iter/implementors/array.rs | ConIterOfArray | { array: UnsafeCell<ManuallyDrop<[T; N]>>, counter: AtomicCounter, }")
s = s.replace("""pub struct ConIterOfArray<T: Send + Sync> {
    pub vec: VecCell<T>,
    pub vec_len: usize,
    pub counter: AtomicCounter,
}""", """pub struct ConIterOfArray<const N: usize, T: Send + Sync> {
    pub array: VecCell<T>,
    pub counter: AtomicCounter,
}""")
s = s.replace("impl<T: Send + Sync> ConIterOfArray<T> {", "impl<const N: usize, T: Send + Sync> ConIterOfArray<N, T> {")
s = s.replace("pub open spec fn wf(&self) -> bool { self.src().len() == self.vec_len }", "pub open spec fn wf(&self) -> bool { self.src().len() == N }")
s = s.replace("iter.vec_len", "N").replace("self.vec_len", "N")
s = s.replace("pub struct BufferedArray<T> {", "pub struct BufferedArray<const N: usize, T> {")
s = s.replace("impl<T: Send + Sync> BufferedArray<T> {", "impl<const N: usize, T: Send + Sync> BufferedArray<N, T> {")
s = s.replace("iter: &ConIterOfArray<T>", "iter: &ConIterOfArray<N, T>")
s = s.replace("abstract model of `UnsafeCell<ManuallyDrop<Vec<T>>>`", "abstract model of `UnsafeCell<ManuallyDrop<[T; N]>>`")
open(os.path.join(d, 'contracts/array.vrs'), 'w').write(s)
