#!/usr/bin/env python3
"""usage: eval_benign.py <results.jsonl> <worktree> <dir-with-patch.diff>...
False-alarm self-test: applies a behaviour-preserving refactoring to a scratch worktree and runs EVERY unit and harness once
(`./check ALL`).  Any FAILED line is a false alarm; UNDECIDED lines are tolerable but counted."""
import json, os, subprocess, sys, time
out, wt = sys.argv[1], sys.argv[2]
for sd in sys.argv[3:]:
    subprocess.run(["git", "-C", wt, "checkout", "-q", "--", "."])
    r = subprocess.run(["git", "-C", wt, "apply", os.path.join(sd, "patch.diff")], stderr=subprocess.PIPE, text=True)
    rec = {"patch": sd}
    if r.returncode != 0:
        rec["error"] = "patch does not apply: " + r.stderr[:200]
    else:
        env = dict(os.environ, VERIF_REPO=wt, VERIF_NO_CONCRETE="1")
        t0 = time.time()
        c = subprocess.run(["/verif/check", "ALL"], env=env, stdout=subprocess.PIPE, stderr=subprocess.STDOUT, text=True, cwd="/verif")
        rec.update({"exit": c.returncode, "wall_s": round(time.time() - t0, 1),
                    "lines": [l[:300] for l in c.stdout.split("\n") if l.startswith(("FAILED", "UNDECIDED", "ALL "))][:20]})
    subprocess.run(["git", "-C", wt, "checkout", "-q", "--", "."])
    open(out, "a").write(json.dumps(rec) + "\n")
    print(json.dumps(rec)[:700], flush=True)
