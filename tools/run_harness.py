#!/usr/bin/env python3
"""usage: run_harness.py <harness-name>... [--timeout s]   -- development aid: runs the named Kani harnesses on a scratch copy of the working tree."""
import sys, os
sys.path.insert(0, os.path.join(os.path.dirname(os.path.dirname(os.path.abspath(__file__))), "lib"))
import kunit
args = sys.argv[1:]
to = 900
if "--timeout" in args:
    i = args.index("--timeout"); to = int(args[i + 1]); del args[i:i + 2]
hs = [h for h in kunit.load_harnesses() if h.name in args]
res, cmds = kunit.run_kani(hs, jobs=8, harness_timeout_s=to)
for n, r in res.items():
    print(n, r["status"], r.get("time_s"), r.get("covers"), [f["description"][:120] for f in r.get("failed_checks", [])][:6], (r.get("output") or "")[-600:] if r["status"] == "undecided" else "")
