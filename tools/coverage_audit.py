#!/usr/bin/env python3
"""Coverage audit (development aid, not a check): which source regions of /repo/src does NO Kani harness reach?
Runs every quick harness of the default group once with Kani's source-based coverage, merges the profiles with kani-cov and prints
the per-file / per-function summary plus the uncovered lines of the non-test source files.  Functions pasted into Verus units
are listed separately (they are covered by deduction, not by execution).
usage: tools/coverage_audit.py [out-dir]"""
import glob, json, os, subprocess, sys
sys.path.insert(0, os.path.join(os.path.dirname(os.path.dirname(os.path.abspath(__file__))), "lib"))
import kunit
from common import env_offline
out = sys.argv[1] if len(sys.argv) > 1 else "/tmp/kcov_out"
os.makedirs(out, exist_ok=True)
hs = [h for h in kunit.load_harnesses() if h.tier == "quick" and h.group == "default"]
dst, _ = kunit.scratch_repo()
cmd = ["cargo", "kani", "-Z", "function-contracts", "-Z", "stubbing", "-Z", "unstable-options", "-Z", "source-coverage", "--coverage",
       "--harness-timeout", "600s", "--output-format", "terse", "-j", "12", "--exact"]
for h in hs:
    cmd += ["--harness", kunit.full_name(h)]
r = subprocess.run(cmd, cwd=dst, env=env_offline(), stdout=subprocess.PIPE, stderr=subprocess.STDOUT, text=True)
open(os.path.join(out, "kani.log"), "w").write(r.stdout)
covdirs = glob.glob(os.path.join(dst, "target", "kani", "**", "kanicov_*"), recursive=True) + glob.glob(os.path.join(dst, "kanicov_*"))
print("coverage dirs:", covdirs[:3], len(covdirs))
raws = []; maps = []
for d in covdirs:
    raws += glob.glob(os.path.join(d, "*kaniraw*.json")) + glob.glob(os.path.join(d, "*_kaniraw.json"))
    maps += glob.glob(os.path.join(d, "*kanimap*.json"))
print(len(raws), "raw profiles,", len(maps), "map files")
K = os.path.expanduser("~/.kani/kani-0.68.0/bin/kani-cov")
merged = os.path.join(out, "merged.json")
subprocess.run([K, "merge"] + raws + ["--output", merged], check=False)
if maps:
    s = subprocess.run([K, "summary", maps[0], "--profile", merged], stdout=subprocess.PIPE, text=True).stdout
    open(os.path.join(out, "summary.md"), "w").write(s)
    rep = subprocess.run([K, "report", maps[0], "--profile", merged, "-f", "escapes"], stdout=subprocess.PIPE, text=True).stdout
    open(os.path.join(out, "report.txt"), "w").write(rep)
    print(s[:6000])
