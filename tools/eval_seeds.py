#!/usr/bin/env python3
"""usage: eval_seeds.py <results.jsonl> <worktree> <seed-dir>...
Runs the property's quick check against a scratch worktree of /repo with the seeded change applied (VERIF_REPO points the
checks at the worktree; evidence and replays of these trial runs go to scratch directories, never to /verif/evidence)."""
import json, os, subprocess, sys, time
out, wt = sys.argv[1], sys.argv[2]
for sd in sys.argv[3:]:
    meta = json.load(open(os.path.join(sd, "meta.json")))
    prop = meta["property"].split()[0].strip(",")[:3]
    subprocess.run(["git", "-C", wt, "checkout", "-q", "--", "."])
    r = subprocess.run(["git", "-C", wt, "apply", os.path.join(sd, "patch.diff")], stderr=subprocess.PIPE, text=True)
    rec = {"seed": sd, "property": prop}
    if r.returncode != 0:
        rec["error"] = "patch does not apply: " + r.stderr[:200]
    else:
        env = dict(os.environ, VERIF_REPO=wt, VERIF_EVIDENCE_DIR="/tmp/seed/ev", VERIF_REPLAYS_DIR="/tmp/seed/rp")
        t0 = time.time()
        c = subprocess.run(["/verif/check", prop, "--tier", os.environ.get("TIER", "quick")], env=env, stdout=subprocess.PIPE, stderr=subprocess.STDOUT, text=True, cwd="/verif")
        rec.update({"exit": c.returncode, "wall_s": round(time.time() - t0, 1),
                    "lines": [l[:240] for l in c.stdout.split("\n") if l.startswith(("VIOLATION", "  failed obligation", "OK ", "UNDECIDED", "KNOWN"))][:14]})
    subprocess.run(["git", "-C", wt, "checkout", "-q", "--", "."])
    open(out, "a").write(json.dumps(rec) + "\n")
    print(json.dumps(rec)[:600], flush=True)
