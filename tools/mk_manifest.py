#!/usr/bin/env python3
"""Generates MANIFEST.json from the property table below (kept in one place so it stays consistent with lib/decide.py)."""
import json, os, sys
d = os.path.dirname(os.path.dirname(os.path.abspath(__file__)))
sys.path.insert(0, os.path.join(d, "lib"))
import decide

TEXT = {
 "C01": ("proof", "Per-call contracts (exactly one reservation RMW; delivered positions = [b, clamp_end(b,n,len)) as a function of the value b the RMW returned, for ALL b, n, len) proved on the real bodies: Verus on slice / vec / array index logic, the for-loop wrappers and the ticket protocol of the wrapped iterator (get, progress, fetch_one, fetch_n / next_chunk, BufferIter::pull: any number of polls, any chunk size), the cloned()/copied() adaptors' single pulls, all extracted verbatim on every run; loop-free full-domain Kani for the range kind. History lemmas K1/K2 (no duplicate, none lost) and the event-labelled protocol model with acceptance lemmas (T-once, T-none-lost) proved in Verus over those clauses. Bounded Kani stand-ins (never counted as discharged): memory effects of vec/array, the std adaptor chain inside the one-shot chunk pull of the wrapped iterator (trusted in Verus), adaptor chunk pulls, std-level operation logs, sequential cursor, for_each/fold.", "5 C01, 3.4"),
 "C02": ("proof", "Clauses idx == b, value == src[b], chunk begin_idx == b and contents == src[b..e] proved for all T (Verus, Seq equality) on the real bodies; range by loop-free full-domain Kani; wrapped iterator: ticket == index and items in production order proved in Verus, contents cross-checked by bounded Kani.", "5 C02"),
 "C03": ("proof", "Chunk clauses nonempty / <= n / consecutive / exact length / short only at the end proved on fetch_n, next_chunk and Buffered*::pull (Verus; range: Kani complete); the inner buffered iterator of the wrapped-iterator kind (len == items still yielded, after partial consumption) in Verus; one-shot and buffered pulls over a wrapped iterator: exact length, short only at the end, nothing on n == 0 proved in Verus (std adaptor chain trusted, cross-checked by bounded Kani); the owning chunk iterator of vec/array (next, size_hint, Drop) in Verus.", "5 C03"),
 "C04": ("proof", "History lemmas K2 (delivered set is a gap-free prefix), K3 (mo order = position order) over the L1 clauses, plus the frame clause 'a pull performs exactly one RMW'.  Real-time order is read through coherence (A1).  Sequential corollary cross-checked by a bounded Kani harness with the real atomics.", "5 C04"),
 "C05": ("proof", "L1 None <=> b >= len, try_get_len == 0 <=> c >= len; lemma K4 (once >= len, every later RMW returns >= len) in the no-wrap regime the property states.", "5 C05"),
 "C06": ("proof", "L1: skip_to_end performs exactly one write of a value >= len (and, for consumed vec/array, drops exactly the unreserved suffix); lemmas K4/K5: every later pull reports the end, no duplicate, order and indices unaffected.  Wrapped iterator: bounded Kani on the real code + protocol lemma.", "5 C06"),
 "C07": ("proof", "Ordering-discipline contract proved on the real bodies: the load of `yielded` that admits a ticket holder is at least Acquire, the RMW that publishes the holder's use of the wrapped iterator is at least Release (atomic_counter.rs and iter.rs / buffered/iter.rs in Verus, unbounded); the wrapped iterator is touched only between admission and publication (proved log language); mutual exclusion (T-mutex) over the event-labelled model whose per-thread automaton accepts exactly those languages (acceptance lemmas). The one-shot chunk pull and the length queries are under the same Verus contract (the queries never touch the wrapped iterator); bounded Kani checks with the std atomics stubbed cross-check them on the compiled code.", "5 C07"),
 "C08": ("model_checking", "Bounded model checking of contracts on the real crate: per-operation induction from an arbitrary counter value with a drop ledger (each element delivered or destroyed exactly once) for Vec<D> (len <= 3; 4 thorough), [D; 0/1/3], zero-sized elements, owning wrapped iterators, chunk iterators driven through nth; helper contracts (take_one / take_slice / split_off_right) checked on the real bodies; index-level ownership effects and the history lemma K7 (takes are disjoint and complementary to the final split) in Verus; the owning chunk iterator TakenRange (next / size_hint / Drop, any chunk length: every offset moved out or destroyed exactly once) in Verus with the two raw-pointer accesses as trusted logged operations.", "5 C08"),
 "C09": ("proof", "Wait-free half: every known-size pulling function is loop- and recursion-free, terminates (Verus termination check on the real bodies) and performs exactly one atomic RMW whatever it returns ([ops] clauses; std-level Kani logs). Wrapped iterator: safety half (a holder that returns has published its whole reservation or set completed: proved; T-progress lemma); liveness under fairness is not claimed.", "5 C09"),
 "C10": ("proof", "L1 contract of into_seq_iter (slice: Verus, exact skip spec; range: Kani complete) + lemma K2 (remainder = [min(c,len), len) is disjoint from and complementary to the delivered set).  vec/array/wrapped: bounded Kani.", "5 C10"),
 "C11": ("proof", "L1: try_get_len is one load c and returns max(len - c, 0), has_more is No/Yes(n) from that (Verus on real bodies incl. the trait default has_more, and try_get_len / has_more of the wrapped iterator; range: Kani complete); lemmas K6 (never increases, zero is definitive), K2 (truthful at quiescence).", "5 C11"),
 "C12": ("model_checking", "Verus (unbounded, slice kind, no assumed contract): the real bodies of default_fns::for_each, for_each_with_ids and fold (both arms, native for loop over the chunk) with BufferedIter::{new,next}, buffered_iter, BufferedSlice::{new,pull} under contract, with ghost logs of the closure invocations: every reservation of the call is FetchAdd(chunk_size), the closure is invoked exactly once, in order, on exactly the positions (for enumerate_for_each: with exactly the indices) those reservations cover, fold threads one accumulator chain from neutral to the result, and the call returns only after a reservation observed the end (closure-call logging shim and Iterator::for_each / for-over-enumerate semantics trusted and listed). Other kinds and interference: bounded Kani harnesses of for_each / enumerate_for_each / fold on the real code under monotone interference: the closure runs once per own reservation with the right index, the call returns only after observing the end; over wrapped iterators with arbitrary size hints: every element once, in order, and the call returns (sequential).", "5 C12"),
 "C13": ("model_checking", "Forwarding methods and single pulls (fetch_one / next, overrides included) of cloned()/copied() over a slice iterator under Verus contract (same effects on the underlying counter, same end / index / length answers); relational bounded Kani harness: the same operation on X.cloned()/X.copied() and on X from the same state gives equal indices, lengths, end/skip behaviour and cloned values, for slice and wrapped underlying iterators; adaptor pulls under arbitrary interference (havoc'd counter) derive everything from their own fetch_add; adaptor chunk size complete.", "5 C13"),
 "C15": ("model_checking", "CBMC --memory-leak-check as a postcondition of the per-operation harnesses ending in drop / into_seq_iter (vec, array), plus the ledger clause 'never neither'.  Bounded in length.", "5 C15"),
 "C16": ("proof", "Every + and - of the verbatim bodies carries Verus's overflow obligation, verified WITHOUT the no-wrap assumption over the full usize domain; the range kind and buffered pulls by loop-free full-domain Kani with overflow checks; chunk size 0 clauses.", "5 C16"),
 "C17": ("proof", "(a) all arithmetic proved overflow-free and every debug_assert proved => debug and release agree (same obligations as C16); (b) documented safety preconditions of the std operations written as stub contracts and asserted at every call site (Kani, bounded in length, complete in scalars).", "5 C17"),
 "C19": ("proof", "Verus: slice get/fetch_n/next return &slice[i] / slice[b..e].iter() (value identity for all T), frame: the only effect is on the iterator's own counter; Clone contract (new counter from one load, same slice).  Address identity and independence of a clone: bounded/complete Kani.", "5 C19"),
}
NOTE = {
 "C01": "A1 (C11 single-location semantics), no-wrap regime, extractor + Verus/Z3 + vstd specs, Kani/CBMC; wrapped-iterator and unsafe memory parts bounded",
 "C07": "A1, A2 (SC bridge is a paper argument), aliasing-model (retag) races are outside both verifiers (F8)",
 "C08": "Kani/CBMC, length bound 3, monomorphic D, no-wrap regime; concurrent histories reduce to sequential ones by disjointness of reservations (K1) -- paper step",
 "C09": "liveness under fairness not claimed; panicking holders excluded (C18)",
}
checks = []
for p in sorted(decide.LEVEL):
    level, text, ref = TEXT[p]
    assert level == decide.LEVEL[p], p
    checks.append({
        "property_id": p,
        "quick_cmd": "./check %s --tier quick" % p,
        "thorough_cmd": "./check %s --tier thorough" % p,
        "evidence_file": "/verif/evidence/%s.json" % p,
        "replay_cmd_template": "./check replay {path}",
        "engine": "contracts",
        "level_claimed": {"category": level, "text": text, "design_ref": "DESIGN.md section " + ref},
        "level_note": NOTE.get(p, "A1 (C11 single-location semantics), extractor + Verus/Z3 + vstd specs, Kani/CBMC; see evidence.assumptions and coverage.trusted_base"),
        "technique": "contract-based deductive verification (Verus on verbatim-extracted bodies + Kani function-level contracts / loop-free harnesses)" if level == "proof" else "bounded model checking of contracts with Kani/CBMC (bounded stand-in, labelled bounded)",
    })
m = {
 "version": 1,
 "setup_cmd": "cargo build --release --offline --manifest-path tools/extract/Cargo.toml",
 "hooks": {"guard": "kani", "enable": "cargo kani sets --cfg kani; harness files are injected into a scratch copy with #[cfg(kani)] include!(..) lines (additions only); no hook lives in /repo",
           "baseline_off_cmd": "/verif/tools/baseline.sh", "source_commits": [], "add_only": True},
 "engines": [{"name": "contracts", "path": "/verif/check", "serves_properties": sorted(decide.LEVEL), "kind_free_text": "contract-based deductive verification: Verus 0.2026.09.13 on function bodies extracted verbatim from /repo on every run (tools/extract), Kani 0.68 on the real crate with injected harnesses; L2 history lemmas in Verus"}],
 "checks": checks,
 "not_applicable": [
  {"property_id": "C14", "reason": "about client programs the compiler must reject and about arbitrary safe call sequences on a public low-level trait: a program verifier only sees programs that already type-check; no function contract expresses a missing Send bound"},
  {"property_id": "C18", "reason": "neither Verus nor Kani has unwinding semantics (Verus proves absence of panics, Kani treats a panic as a failed check under panic=abort): 'what other threads observe after one thread unwinds' is not a pre/postcondition of any function"},
 ],
 "notes": "exit 0 = held (KNOWN-FINDING lines for open entries of known_findings.json), 1 = VIOLATION, 2 = undecided (machinery trouble, never a violation).  Fixes of genuine defects are 'fix:' commits in /repo, recorded in known_findings.json.",
}
json.dump(m, open(os.path.join(d, "MANIFEST.json"), "w"), indent=1)
print("MANIFEST.json written:", len(checks), "checks")
