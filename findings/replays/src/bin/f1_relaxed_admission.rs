// F1 (C07): the load of `yielded` that admits a ticket holder to the wrapped iterator was Relaxed, so consecutive
// critical sections were not ordered by happens-before.  Run under Miri (cargo +nightly miri run --bin f1_relaxed_admission):
// on the pinned tree Miri reports "Data race detected ... in mut_iter"; with the fix it runs clean.
use orx_concurrent_iter::*;
fn main() {
    let it = (0..64usize).map(|x| x + 1).into_con_iter();
    let s: usize = std::thread::scope(|s| {
        let h: Vec<_> = (0..3).map(|_| s.spawn(|| { let mut a = 0; while let Some(x) = it.next() { a += x; } a })).collect();
        h.into_iter().map(|h| h.join().unwrap()).sum()
    });
    assert_eq!(s, (1..=64).sum::<usize>());
    println!("NOT-REPRODUCED F1 (only meaningful under Miri)");
}
