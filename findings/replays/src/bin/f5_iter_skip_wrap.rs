// F5 (C06): skip_to_end on a wrapped iterator stores usize::MAX in the ticket counter; the next reservation wraps it
use orx_concurrent_iter::*;
fn main() {
    let it = (0..5usize).map(|x| x * 10).into_con_iter();
    it.skip_to_end();
    let out: Vec<_> = (0..3).map(|_| it.next_id_and_value().map(|x| (x.idx, x.value))).collect();
    if out.iter().any(|x| x.is_some()) { println!("REPRODUCED F5: pulls after skip_to_end returned {:?}", out); std::process::exit(1) }
    println!("NOT-REPRODUCED F5");
}
