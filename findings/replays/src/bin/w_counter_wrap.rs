// W (C16, open): the position counter itself wraps: one huge one-shot chunk makes later pulls re-deliver
use orx_concurrent_iter::*;
fn main() {
    let v: Vec<u32> = (0..10).collect();
    let r = std::panic::catch_unwind(|| { let it = v.con_iter(); let a = it.next().copied(); let _ = it.next_chunk(usize::MAX).map(|c| c.values.len()); let b = it.next().copied(); (a, b) });
    match r {
        Err(_) => { println!("REPRODUCED W: panicked"); std::process::exit(1) }
        Ok((a, b)) => if b.is_some() { println!("REPRODUCED W: next() = {:?}, next_chunk(usize::MAX), next() = {:?} (position 0 delivered twice)", a, b); std::process::exit(1) }
    }
    println!("NOT-REPRODUCED W");
}
