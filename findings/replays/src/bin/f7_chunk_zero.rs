// F7 (C16/C11): next_chunk(0) on a wrapped iterator sets `completed`: has_more turns No although elements remain
use orx_concurrent_iter::*;
fn main() {
    let it = (0..5usize).map(|x| x * 10).into_con_iter();
    let before = it.has_more();
    let ch = it.next_chunk(0).map(|c| c.values.len());
    let after = it.has_more();
    let nx = it.next();
    if ch.is_some() || before != after || nx != Some(0) { println!("REPRODUCED F7: has_more {:?} -> {:?} around next_chunk(0) = {:?}; next() = {:?}", before, after, ch, nx); std::process::exit(1) }
    println!("NOT-REPRODUCED F7");
}
