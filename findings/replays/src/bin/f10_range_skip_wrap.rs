// F10 (C06): ConIterOfRange::skip_to_end stores range.end (not the length) in the position counter; for a range ending near
// usize::MAX the next reservation wraps the counter and elements are delivered again after the skip.
use orx_concurrent_iter::*;
fn main() {
    let it = (usize::MAX - 3..usize::MAX).con_iter();
    let first = it.next();
    it.skip_to_end();
    let more = it.has_more();
    let out: Vec<_> = (0..3).map(|_| it.next_id_and_value().map(|x| (x.idx, x.value))).collect();
    if out.iter().any(|x| x.is_some()) || more != HasMore::No {
        println!("REPRODUCED F10: next() = {:?}; skip_to_end(); has_more = {:?}; pulls after the skip returned {:?}", first, more, out);
        std::process::exit(1)
    }
    println!("NOT-REPRODUCED F10");
}
