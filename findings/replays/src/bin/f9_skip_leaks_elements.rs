// F9 (C08/C15): after skip_to_end, the undelivered elements of a consumed Vec / array are never destroyed
use orx_concurrent_iter::*;
use std::sync::atomic::{AtomicUsize, Ordering};
static DROPS: AtomicUsize = AtomicUsize::new(0);
struct D;
impl Drop for D { fn drop(&mut self) { DROPS.fetch_add(1, Ordering::SeqCst); } }
fn main() {
    { let it = vec![D, D, D, D].into_con_iter(); let a = it.next(); it.skip_to_end(); assert!(it.next().is_none()); drop(it); drop(a); }
    let c1 = DROPS.swap(0, Ordering::SeqCst);
    { let it = [D, D, D, D].into_con_iter(); let a = it.next(); it.skip_to_end(); drop(it); drop(a); }
    let c2 = DROPS.swap(0, Ordering::SeqCst);
    if c1 != 4 || c2 != 4 { println!("REPRODUCED F9: {} (vec) and {} (array) of 4 elements destroyed after next + skip_to_end + drop", c1, c2); std::process::exit(1) }
    println!("NOT-REPRODUCED F9");
}
