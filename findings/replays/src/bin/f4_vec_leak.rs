// F4 (C15): the consumed Vec's buffer is never released.  Counting allocator.
use orx_concurrent_iter::*;
use std::alloc::{GlobalAlloc, Layout, System};
use std::sync::atomic::{AtomicIsize, Ordering};
struct A; static LIVE: AtomicIsize = AtomicIsize::new(0);
unsafe impl GlobalAlloc for A {
    unsafe fn alloc(&self, l: Layout) -> *mut u8 { LIVE.fetch_add(l.size() as isize, Ordering::SeqCst); System.alloc(l) }
    unsafe fn dealloc(&self, p: *mut u8, l: Layout) { LIVE.fetch_sub(l.size() as isize, Ordering::SeqCst); System.dealloc(p, l) }
}
#[global_allocator] static G: A = A;
fn main() {
    let before = LIVE.load(Ordering::SeqCst);
    for round in 0..3 {
        let v: Vec<u64> = (0..1000).collect();
        let it = v.into_con_iter();
        if round == 1 { for _ in 0..10 { let _ = it.next(); } }
        if round == 2 { let s = it.into_seq_iter(); drop(s); } else { drop(it); }
    }
    let after = LIVE.load(Ordering::SeqCst);
    if after - before >= 8000 { println!("REPRODUCED F4: {} bytes still live after create/consume/drop x3", after - before); std::process::exit(1) }
    println!("NOT-REPRODUCED F4");
}
