// F3 (C08): ConIterOfArray drops elements twice (into_seq_iter then drop; or take two, drop the iterator)
use orx_concurrent_iter::*;
use std::sync::atomic::{AtomicUsize, Ordering};
static DROPS: [AtomicUsize; 3] = [AtomicUsize::new(0), AtomicUsize::new(0), AtomicUsize::new(0)];
struct D(usize);
impl Drop for D { fn drop(&mut self) { DROPS[self.0].fetch_add(1, Ordering::SeqCst); } }
fn counts() -> Vec<usize> { DROPS.iter().map(|d| d.swap(0, Ordering::SeqCst)).collect() }
fn main() {
    { let it = [D(0), D(1), D(2)].into_con_iter(); let s = it.into_seq_iter(); drop(s); }
    let c1 = counts();
    { let it = [D(0), D(1), D(2)].into_con_iter(); let a = it.next(); let b = it.next(); drop(it); drop(a); drop(b); }
    let c2 = counts();
    if c1 != vec![1, 1, 1] || c2 != vec![1, 1, 1] { println!("REPRODUCED F3: drop counts {:?} {:?}, expected [1, 1, 1] twice", c1, c2); std::process::exit(1) }
    println!("NOT-REPRODUCED F3");
}
