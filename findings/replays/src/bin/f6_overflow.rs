// F6 (C16): begin_idx + n overflows for a huge one-shot chunk.  slice of 10: next(); next_chunk(usize::MAX)
use orx_concurrent_iter::*;
fn main() {
    let v: Vec<u32> = (0..10).collect();
    let r = std::panic::catch_unwind(|| {
        let it = v.con_iter();
        let a = it.next().copied();
        let ch = it.next_chunk(usize::MAX).map(|c| (c.begin_idx, c.values.copied().collect::<Vec<_>>()));
        (a, ch)
    });
    match r {
        Err(_) => { println!("REPRODUCED F6: next_chunk(usize::MAX) panicked (overflow check)"); std::process::exit(1) }
        Ok((a, ch)) => {
            let want = Some((1usize, (1..10).collect::<Vec<u32>>()));
            if a != Some(0) || ch != want { println!("REPRODUCED F6: got {:?} {:?}, expected Some(0) {:?}", a, ch, want); std::process::exit(1) }
        }
    }
    // range with start > 0
    let r = std::panic::catch_unwind(|| {
        let it = (10usize..20).con_iter();
        let _ = it.next();
        it.next_chunk(usize::MAX - 5).map(|c| (c.begin_idx, c.values.collect::<Vec<_>>()))
    });
    match r {
        Err(_) => { println!("REPRODUCED F6: range next_chunk(usize::MAX - 5) panicked"); std::process::exit(1) }
        Ok(ch) => { let want = Some((1usize, (11..20).collect::<Vec<usize>>())); if ch != want { println!("REPRODUCED F6: range got {:?}, expected {:?}", ch, want); std::process::exit(1) } }
    }
    let r = std::panic::catch_unwind(|| { let it = (usize::MAX - 3..usize::MAX).con_iter(); let mut out = vec![]; for _ in 0..6 { out.push(it.next_id_and_value().map(|x| (x.idx, x.value))); } out });
    match r {
        Err(_) => { println!("REPRODUCED F6: range MAX-3..MAX panicked while pulling past the end"); std::process::exit(1) }
        Ok(out) => { if out[3..].iter().any(|x| x.is_some()) { println!("REPRODUCED F6: range MAX-3..MAX revived {:?}", out); std::process::exit(1) } }
    }
    println!("NOT-REPRODUCED F6");
}
