// F2 (C17): Vec::from_raw_parts(ptr, len, 0) violates the documented precondition len <= capacity; a debug build of the
// client aborts with "unsafe precondition(s) violated" (run this binary in the debug profile).
use orx_concurrent_iter::*;
fn main() {
    let v: Vec<String> = (0..8).map(|i| i.to_string()).collect();
    let it = v.into_con_iter();
    let ch = it.next_chunk(3).map(|c| c.values.collect::<Vec<_>>());
    assert_eq!(ch, Some(vec!["0".to_string(), "1".to_string(), "2".to_string()]));
    let a = [1u64, 2, 3, 4];
    let it = a.into_con_iter();
    let rest: Vec<u64> = it.into_seq_iter().collect();
    assert_eq!(rest, vec![1, 2, 3, 4]);
    println!("NOT-REPRODUCED F2");
}
