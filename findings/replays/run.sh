#!/bin/bash
# usage: run.sh [debug|release]   -- builds against /repo's working tree into a scratch target dir and runs every replay
prof=${1:-debug}; flag=""; [ "$prof" = release ] && flag="--release"
T=$(mktemp -d /tmp/orxfind.XXXX); trap "rm -rf $T" EXIT
cd "$(dirname "$0")"
CARGO_TARGET_DIR=$T cargo build --offline $flag --bins >/dev/null 2>$T/build.log || { cat $T/build.log; exit 2; }
for b in f10_range_skip_wrap f2_from_raw_parts f3_array_double_drop f4_vec_leak f5_iter_skip_wrap f6_overflow f7_chunk_zero f9_skip_leaks_elements w_counter_wrap; do
  out=$($T/$prof/$b 2>&1); rc=$?
  echo "[$prof] $b rc=$rc: $(echo "$out" | tail -1 | cut -c1-220)"
done
