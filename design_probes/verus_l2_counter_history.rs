use vstd::prelude::*;
verus! {

// modification order of ONE counter location
pub enum Ev { FetchAdd { n: nat, ret: nat }, Store { v: nat } }

pub open spec fn val_after(h: Seq<Ev>, i: int) -> nat
    decreases i
{
    if i <= 0 { 0 } else {
        match h[i - 1] {
            Ev::FetchAdd { n, ret } => val_after(h, i - 1) + n,
            Ev::Store { v } => v,
        }
    }
}

// RMW atomicity: each RMW returns the value written by its mo-predecessor
pub open spec fn consistent(h: Seq<Ev>) -> bool {
    forall|i: int| 0 <= i < h.len() && h[i] is FetchAdd ==> h[i]->FetchAdd_ret == val_after(h, i)
}

pub open spec fn clamp_end(b: nat, n: nat, len: nat) -> nat {
    if b >= len { b } else if b + n <= len { b + n } else { len }
}

// positions delivered by event i according to the L1 contract
pub open spec fn delivers(e: Ev, len: nat, p: nat) -> bool {
    e is FetchAdd && e->FetchAdd_ret <= p < clamp_end(e->FetchAdd_ret, e->FetchAdd_n, len)
}

pub open spec fn no_store(h: Seq<Ev>) -> bool { forall|i: int| 0 <= i < h.len() ==> h[i] is FetchAdd }
pub open spec fn stores_ge(h: Seq<Ev>, len: nat) -> bool { forall|i: int| 0 <= i < h.len() && h[i] is Store ==> h[i]->Store_v >= len }

proof fn lemma_mono(h: Seq<Ev>, i: int, j: int)
    requires no_store(h), 0 <= i <= j <= h.len()
    ensures val_after(h, i) <= val_after(h, j)
    decreases j - i
{
    if i < j { lemma_mono(h, i, j - 1); }
}

// C01: no duplicates
proof fn lemma_no_dup(h: Seq<Ev>, len: nat, i: int, j: int, p: nat)
    requires consistent(h), no_store(h), 0 <= i < j < h.len(), delivers(h[i], len, p), delivers(h[j], len, p)
    ensures false
{
    lemma_mono(h, i + 1, j);
    assert(val_after(h, i + 1) == val_after(h, i) + h[i]->FetchAdd_n);
}

// C01: none lost: every position below min(total, len) is delivered by some event
proof fn lemma_none_lost(h: Seq<Ev>, len: nat, k: int, p: nat)
    requires consistent(h), no_store(h), 0 <= k <= h.len(), p < val_after(h, k), p < len
    ensures exists|i: int| 0 <= i < k && delivers(h[i], len, p)
    decreases k
{
    if k > 0 {
        if p < val_after(h, k - 1) {
            lemma_none_lost(h, len, k - 1, p);
            let i = choose|i: int| 0 <= i < k - 1 && delivers(h[i], len, p);
            assert(0 <= i < k && delivers(h[i], len, p));
        } else {
            assert(delivers(h[k - 1], len, p));
        }
    }
}

// C05/C06: once a value >= len has been observed/stored, every later RMW observes >= len
proof fn lemma_end_permanent(h: Seq<Ev>, len: nat, i: int, j: int)
    requires consistent(h), stores_ge(h, len), 0 <= i <= j <= h.len(), val_after(h, i) >= len
    ensures val_after(h, j) >= len
    decreases j - i
{
    if i < j { lemma_end_permanent(h, len, i, j - 1); }
}

// C04: real-time order. If event i precedes event j in mo, positions of i are below positions of j
proof fn lemma_order(h: Seq<Ev>, len: nat, i: int, j: int, p: nat, q: nat)
    requires consistent(h), no_store(h), 0 <= i < j < h.len(), delivers(h[i], len, p), delivers(h[j], len, q)
    ensures p < q
{
    lemma_mono(h, i + 1, j);
    assert(val_after(h, i + 1) == val_after(h, i) + h[i]->FetchAdd_n);
}

} // verus!
fn main() {}
