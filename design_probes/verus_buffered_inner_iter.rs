use vstd::prelude::*;
verus! {

pub struct BufferedIter<'a, T> {
    pub values: &'a mut [Option<T>],
    pub initial_len: usize,
    pub current_idx: usize,
}

impl<'a, T> BufferedIter<'a, T> {
    pub open spec fn wf(&self) -> bool {
        &&& self.current_idx <= self.initial_len <= self.values@.len()
        &&& forall|i: int| self.current_idx <= i < self.initial_len ==> (#[trigger] self.values@[i]) is Some
    }

    fn next(&mut self) -> (r: Option<T>)
        requires old(self).wf()
        ensures
            final(self).wf(),
            final(self).initial_len == old(self).initial_len,
            old(self).current_idx < old(self).initial_len ==> r == old(self).values@[old(self).current_idx as int] && r is Some && final(self).current_idx == old(self).current_idx + 1,
            old(self).current_idx >= old(self).initial_len ==> r is None && final(self).current_idx == old(self).current_idx,
    {
        if self.current_idx < self.initial_len {
            let next = self.values[self.current_idx].take();
            if next.is_some() {
                self.current_idx += 1;
            } else {
                self.current_idx = self.initial_len;
            }
            next
        } else {
            None
        }
    }

    fn len(&self) -> (r: usize)
        requires self.wf()
        ensures r == self.initial_len - self.current_idx
    {
        self.initial_len - self.current_idx
    }
}
} // verus!
fn main() {}
