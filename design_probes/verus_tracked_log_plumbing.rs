use vstd::prelude::*;
verus! {
pub tracked struct Log { pub ghost s: Seq<int> }

fn nop2(x: usize, Tracked(log): Tracked<&mut Log>) -> (r: usize)
    ensures final(log).s == old(log).s, r == x
{ x }

fn push2(x: usize, Tracked(log): Tracked<&mut Log>) -> (r: usize)
    ensures final(log).s == old(log).s.push(x as int), r == x
{ proof { log.s = log.s.push(x as int); } x }

fn call2(x: usize, Tracked(log): Tracked<&mut Log>) -> (r: usize)
    ensures final(log).s == old(log).s.push(x as int)
{ 
  let a = nop2(x, Tracked(log));
  push2(a, Tracked(log))
}
fn call2b(x: usize, Tracked(log): Tracked<&mut Log>) -> (r: usize)
    ensures final(log).s == old(log).s.push(x as int).push(x as int)
{ 
  let a = push2(x, Tracked(log));
  if a > 3 { push2(a, Tracked(log)) } else { let b = push2(a, Tracked(log)); b }
}
} // verus!
fn main() {}
