use vstd::prelude::*;
use vstd::std_specs::iter::IteratorSpec;
verus! {

fn seq_iter<'a, T>(slice: &'a [T], current: usize) -> (r: core::iter::Skip<core::slice::Iter<'a, T>>)
    ensures r.remaining() == (if current <= slice@.len() { slice@.subrange(current as int, slice@.len() as int).as_ref() } else { Seq::empty() })
{
    slice.iter().skip(current)
}

fn oc<'a, T: Clone>(x: Option<&'a T>) -> (r: Option<T>)
    ensures x is None <==> r is None
{
    x.cloned()
}

} // verus!
fn main() {}
