// Design probe (not machinery). Appended to src/iter/implementors/vec.rs of a scratch copy of /repo:
//   cargo kani --harness vec_op_from_any_state
// Per-operation induction for C08: from ANY counter value c (positions < min(c,len) are "owned elsewhere"),
// one public operation followed by drop / into_seq_iter; every element is delivered or dropped exactly once.
#[cfg(kani)]
mod verif_kani {
    use super::*;
    use std::cell::UnsafeCell;
    const N: usize = 3;
    struct Ledger(UnsafeCell<[u8; N]>);
    unsafe impl Sync for Ledger {}
    static DROPS: Ledger = Ledger(UnsafeCell::new([0; N]));
    fn drops() -> &'static mut [u8; N] { unsafe { &mut *DROPS.0.get() } }
    struct D(usize);
    impl Drop for D { fn drop(&mut self) { drops()[self.0] += 1; } }

    #[kani::proof]
    #[kani::unwind(5)]
    fn vec_op_from_any_state() {
        let len: usize = kani::any();
        kani::assume(len <= N);
        let mut v = Vec::new();
        let mut i = 0;
        while i < len { v.push(D(i)); i += 1; }
        let it = ConIterOfVec::new(v);
        let c: usize = kani::any();
        it.counter().store(c);
        let owned_from = if c < len { c } else { len };      // representation invariant: [owned_from, len) still owned by `it`
        let mut delivered = [false; N];
        let op: u8 = kani::any();
        kani::assume(op < 3);
        if op == 0 {
            if let Some(x) = it.next_id_and_value() { assert!(x.idx == c && x.value.0 == c && c < len); delivered[c] = true; std::mem::forget(x.value); }
        } else if op == 1 {
            let n: usize = kani::any();
            kani::assume(n <= usize::MAX - c);                // no-wrap regime
            let take: usize = kani::any();                     // how many items of the chunk the caller consumes
            if let Some(mut ch) = it.next_chunk(n) {
                assert!(ch.begin_idx == c && c < len);
                let l = ch.values.len();
                assert!(l >= 1 && l <= n && c + l <= len && (l == n || c + l == len));
                let mut k = 0;
                while k < l && k < take { let x = ch.values.next().unwrap(); assert!(x.0 == c + k); delivered[c + k] = true; std::mem::forget(x); k += 1; }
            }
        } else {
            it.skip_to_end();
        }
        // snapshot: nothing owned by `it` may have been dropped yet except the unconsumed part of a dropped chunk
        let fin: bool = kani::any();
        if fin { drop(it); } else { let s = it.into_seq_iter(); drop(s); }
        let d = drops();
        let mut k = 0;
        while k < len {
            if k < owned_from { assert!(d[k] == 0); }                         // moved out earlier: never touched
            else if delivered[k] { assert!(d[k] == 0); }                      // handed to the caller (forgotten here)
            else { assert!(d[k] == 1); }                                      // dropped exactly once by the machinery
            k += 1;
        }
    }
}
