use vstd::prelude::*;
use core::cmp::Ordering;
use vstd::std_specs::iter::IteratorSpec;
verus! {
#[verifier::reject_recursive_types(T)]
pub struct NextChunk<T, Iter> where Iter: ExactSizeIterator<Item = T> { pub begin_idx: usize, pub values: Iter }
pub enum Op { FetchAdd { n: usize, ret: usize }, TakeRange { b: usize, e: usize } }
pub tracked struct Log { pub ghost s: Seq<Op> }

#[verifier::external_body]
#[verifier::reject_recursive_types(T)]
pub struct VecCell<T> { v: std::cell::UnsafeCell<std::mem::ManuallyDrop<Vec<T>>> }

#[verifier::reject_recursive_types(T)]
pub struct ConIterOfVec<T> { pub vec: VecCell<T>, pub vec_len: usize }

impl<T> ConIterOfVec<T> {
    pub uninterp spec fn src(&self) -> Seq<T>;

    #[verifier::external_body]
    pub(crate) unsafe fn take_slice(&self, begin_idx: usize, len: usize, Tracked(log): Tracked<&mut Log>) -> (r: std::vec::IntoIter<T>)
        requires begin_idx <= self.vec_len, begin_idx + len <= usize::MAX
        ensures ({ let e = if begin_idx + len <= self.vec_len { begin_idx + len } else { self.vec_len as int };
            final(log).s == old(log).s.push(Op::TakeRange { b: begin_idx, e: e as usize }) && r.remaining() == self.src().subrange(begin_idx as int, e) })
    { unimplemented!() }

    #[verifier::external_body]
    fn progress_and_get_begin_idx(&self, number_to_fetch: usize, Tracked(log): Tracked<&mut Log>) -> (r: Option<usize>)
        ensures final(log).s == old(log).s.push(Op::FetchAdd { n: number_to_fetch, ret: (final(log).s.last()->FetchAdd_ret) }),
            ({ let b = final(log).s.last()->FetchAdd_ret; r == (if b < self.vec_len { Some(b) } else { None }) && b + number_to_fetch <= usize::MAX }),
    { unimplemented!() }

    fn initial_len(&self) -> (r: usize) ensures r == self.vec_len { self.vec_len }

    fn fetch_n(&self, n: usize, Tracked(log): Tracked<&mut Log>) -> (r: Option<NextChunk<T, std::vec::IntoIter<T>>>)
        requires n + self.vec_len <= usize::MAX
        ensures
            final(log).s.len() >= old(log).s.len() + 1,
            final(log).s[old(log).s.len() as int] is FetchAdd,
            ({ let b = final(log).s[old(log).s.len() as int]->FetchAdd_ret; let len = self.vec_len;
               let e: int = if b >= len { b as int } else if b + n <= len { b + n } else { len as int };
               match r {
                 None => b == e && final(log).s == old(log).s.push(Op::FetchAdd{n, ret: b}),
                 Some(c) => b < e && c.begin_idx == b && c.values.remaining() == self.src().subrange(b as int, e)
                            && final(log).s == old(log).s.push(Op::FetchAdd{n, ret: b}).push(Op::TakeRange{b, e: e as usize}),
               } }),
    {
        let begin_idx = self
            .progress_and_get_begin_idx(n, Tracked(log))
            .unwrap_or(self.initial_len());
        let end_idx = (begin_idx + n).min(self.initial_len()).max(begin_idx);

        match begin_idx.cmp(&end_idx) {
            Ordering::Equal => None,
            _ => {
                let values = unsafe { self.take_slice(begin_idx, n, Tracked(log)) };
                Some(NextChunk { begin_idx, values })
            }
        }
    }
}
} // verus!
fn main() {}
