// Design probe: Kani 0.68 artifact. `cargo kani` on a crate containing only this file.
// with_static_mut FAILS (spurious "__rust_dealloc ... free argument must be dynamic object"),
// with_unsafecell_static and without_static PASS. Consequence: harnesses and stubs never use `static mut`.
#[cfg(kani)]
mod k {
    static mut S: usize = 0;
    #[kani::proof]
    fn with_static_mut() { unsafe { S = 1; } let v: Vec<usize> = Vec::new(); drop(v); }
    #[kani::proof]
    fn without_static() { let v: Vec<usize> = Vec::new(); drop(v); }
    struct Cell2(std::cell::UnsafeCell<[usize; 4]>);
    unsafe impl Sync for Cell2 {}
    static C: Cell2 = Cell2(std::cell::UnsafeCell::new([0; 4]));
    #[kani::proof]
    fn with_unsafecell_static() { unsafe { (*C.0.get())[1] = 5; } let v: Vec<usize> = Vec::new(); drop(v); }
}
