//! usage: extractor_probe <template.vrs> <repo-root>  > generated.rs
//! Template directives (line comments inside an otherwise ordinary Verus file):
//!   //@ghostcalls a,b,c                      names of functions under contract: calls to them get `Tracked(log)` appended (E3)
//!   //@closure <fn> <ordinal> | <spec text>   spec inserted after the parameter list of the n-th closure of <fn> (E6)
//!   //@sig <file> | <impl selector> | <fn> | <expected real signature, whitespace-insensitive>
//!   //@paste <file> | <impl selector> | <fn>  replaced by the verbatim body of that function (rules applied)
//! impl selector: "<Trait> for <Type>" or "inherent <Type>".
use proc_macro2::Span;
use std::collections::HashMap;
use syn::spanned::Spanned;
use syn::visit::Visit;

fn off(src: &str, s: Span, end: bool) -> usize {
    let r = s.byte_range();
    let _ = src;
    if end { r.end } else { r.start }
}

struct Edits<'a> {
    src: &'a str,
    ghost: &'a [String],
    closure_specs: &'a HashMap<usize, String>,
    closure_no: usize,
    ins: Vec<(usize, usize, String)>, // (start, end, replacement) in file offsets
}

impl<'a, 'ast> Visit<'ast> for Edits<'a> {
    fn visit_expr_method_call(&mut self, m: &'ast syn::ExprMethodCall) {
        if self.ghost.iter().any(|g| m.method == g) {
            let close = off(self.src, m.paren_token.span.close(), false);
            let txt = if m.args.is_empty() { "Tracked(log)" } else { ", Tracked(log)" };
            self.ins.push((close, close, txt.to_string()));
        }
        syn::visit::visit_expr_method_call(self, m);
    }
    fn visit_expr_call(&mut self, c: &'ast syn::ExprCall) {
        if let syn::Expr::Path(p) = &*c.func {
            let last = p.path.segments.last().map(|s| s.ident.to_string()).unwrap_or_default();
            if p.qself.is_some() {
                // E4b: <Self as Trait<_>>::name  ->  Self::name
                let r = p.span().byte_range();
                self.ins.push((r.start, r.end, format!("Self::{}", last)));
            }
            if self.ghost.iter().any(|g| *g == last) {
                let close = off(self.src, c.paren_token.span.close(), false);
                let txt = if c.args.is_empty() { "Tracked(log)" } else { ", Tracked(log)" };
                self.ins.push((close, close, txt.to_string()));
            }
        }
        syn::visit::visit_expr_call(self, c);
    }
    fn visit_expr_closure(&mut self, c: &'ast syn::ExprClosure) {
        self.closure_no += 1;
        if let Some(spec) = self.closure_specs.get(&self.closure_no) {
            let after_params = off(self.src, c.or2_token.span(), true);
            let b = c.body.span().byte_range();
            let is_block = matches!(&*c.body, syn::Expr::Block(_));
            if is_block {
                self.ins.push((after_params, after_params, format!(" {} ", spec)));
            } else {
                self.ins.push((after_params, after_params, format!(" {} {{ ", spec)));
                self.ins.push((b.end, b.end, " }".to_string()));
            }
        }
        syn::visit::visit_expr_closure(self, c);
    }
}

fn norm(s: &str) -> String { s.split_whitespace().collect::<Vec<_>>().join("") }

fn find_fn<'f>(file: &'f syn::File, sel: &str, name: &str) -> Option<(&'f syn::Signature, &'f syn::Block)> {
    if let Some(tr) = sel.strip_prefix("trait ") {
        for item in &file.items {
            if let syn::Item::Trait(t) = item {
                if t.ident == tr.trim() {
                    for ti in &t.items { if let syn::TraitItem::Fn(f) = ti { if f.sig.ident == name { return f.default.as_ref().map(|b| (&f.sig, b)); } } }
                }
            }
        }
        return None;
    }
    let (want_trait, want_ty) = if let Some(rest) = sel.strip_prefix("inherent ") {
        (None, rest.trim().to_string())
    } else {
        let mut it = sel.split(" for ");
        (Some(it.next()?.trim().to_string()), it.next()?.trim().to_string())
    };
    for item in &file.items {
        if let syn::Item::Impl(im) = item {
            let ty_ok = match &*im.self_ty { syn::Type::Path(p) => p.path.segments.last().map(|s| s.ident == want_ty).unwrap_or(false), _ => false };
            let tr = im.trait_.as_ref().and_then(|(_, p, _)| p.segments.last().map(|s| s.ident.to_string()));
            if ty_ok && tr == want_trait {
                for ii in &im.items { if let syn::ImplItem::Fn(f) = ii { if f.sig.ident == name { return Some((&f.sig, &f.block)); } } }
            }
        }
    }
    None
}

fn main() {
    let args: Vec<String> = std::env::args().collect();
    let tpl = std::fs::read_to_string(&args[1]).expect("template");
    let root = &args[2];
    let mut ghost: Vec<String> = vec![];
    let mut closure_specs: HashMap<String, HashMap<usize, String>> = HashMap::new();
    for l in tpl.lines() {
        let t = l.trim();
        if let Some(r) = t.strip_prefix("//@ghostcalls ") { ghost.extend(r.split(',').map(|x| x.trim().to_string())); }
        if let Some(r) = t.strip_prefix("//@closure ") {
            let (head, spec) = r.split_once('|').expect("closure directive");
            let mut h = head.split_whitespace();
            let f = h.next().unwrap().to_string();
            let n: usize = h.next().unwrap().parse().unwrap();
            closure_specs.entry(f).or_default().insert(n, spec.trim().to_string());
        }
    }
    let mut cache: HashMap<String, (String, syn::File)> = HashMap::new();
    let mut out = String::new();
    for l in tpl.lines() {
        let t = l.trim();
        let is_paste = t.starts_with("//@paste ");
        let is_sig = t.starts_with("//@sig ");
        if !is_paste && !is_sig { out.push_str(l); out.push('\n'); continue; }
        let body = if is_paste { &t[9..] } else { &t[7..] };
        let parts: Vec<&str> = body.split('|').map(|x| x.trim()).collect();
        let (file, sel, name) = (parts[0], parts[1], parts[2]);
        if !cache.contains_key(file) {
            let src = std::fs::read_to_string(format!("{}/{}", root, file)).unwrap_or_else(|_| { eprintln!("LOST-ANCHOR file {}", file); std::process::exit(2) });
            let parsed = syn::parse_file(&src).unwrap_or_else(|e| { eprintln!("PARSE {}: {}", file, e); std::process::exit(2) });
            cache.insert(file.to_string(), (src, parsed));
        }
        let (src, parsed) = cache.get(file).unwrap();
        let (fsig, fblock) = find_fn(parsed, sel, name).unwrap_or_else(|| { eprintln!("LOST-ANCHOR {} | {} | {}", file, sel, name); std::process::exit(2) });
        if is_sig {
            let real = &src[fsig.span().byte_range()];
            if norm(real) != norm(parts[3]) { eprintln!("SIGNATURE-CHANGED {}::{}\n  expected {}\n  found    {}", sel, name, parts[3], real); std::process::exit(2); }
            continue;
        }
        let br = fblock.span().byte_range();
        let empty = HashMap::new();
        let mut ed = Edits { src, ghost: &ghost, closure_specs: closure_specs.get(name).unwrap_or(&empty), closure_no: 0, ins: vec![] };
        ed.visit_block(fblock);
        let mut ins = ed.ins;
        ins.sort_by_key(|e| (e.0, e.1));
        // paste the inside of the braces, verbatim, with the edits
        let (lo, hi) = (br.start + 1, br.end - 1);
        let mut cur = lo;
        let line0 = fblock.span().start().line;
        out.push_str(&format!("        // <<< {}:{} {}::{} (verbatim)\n", file, line0, sel, name));
        for (s, e, txt) in ins {
            if s < cur { continue; } // nested replacement already covered
            out.push_str(&src[cur..s]);
            out.push_str(&txt);
            cur = e;
        }
        out.push_str(&src[cur..hi]);
        out.push_str("\n        // >>>\n");
    }
    print!("{}", out);
}
