use vstd::prelude::*;
use core::cmp::Ordering;
verus! {
pub struct Next<T> { pub idx: usize, pub value: T }
pub enum Op { FetchAdd { n: usize, ret: usize }, Load { ret: usize }, Store { v: usize }, Take { idx: usize }, TakeRange { b: usize, e: usize }, Split { left: usize } }
pub tracked struct Log { pub ghost s: Seq<Op> }

#[verifier::external_body]
pub struct AtomicCounter { current: std::sync::atomic::AtomicUsize }
impl AtomicCounter {
    #[verifier::external_body]
    pub fn fetch_and_increment(&self, Tracked(log): Tracked<&mut Log>) -> (r: usize)
        ensures final(log).s == old(log).s.push(Op::FetchAdd { n: 1, ret: r })
    { unimplemented!() }
    #[verifier::external_body]
    pub fn current(&self, Tracked(log): Tracked<&mut Log>) -> (r: usize)
        ensures final(log).s == old(log).s.push(Op::Load { ret: r })
    { unimplemented!() }
}

#[verifier::external_body]
#[verifier::reject_recursive_types(T)]
pub struct VecCell<T> { v: std::cell::UnsafeCell<std::mem::ManuallyDrop<Vec<T>>> }

#[verifier::reject_recursive_types(T)]
pub struct ConIterOfVec<T> {
    pub vec: VecCell<T>,
    pub vec_len: usize,
    pub counter: AtomicCounter,
}

impl<T> ConIterOfVec<T> {
    pub uninterp spec fn src(&self) -> Seq<T>;

    #[verifier::external_body]
    unsafe fn take_one(&self, item_idx: usize, Tracked(log): Tracked<&mut Log>) -> (r: T)
        requires item_idx < self.vec_len
        ensures final(log).s == old(log).s.push(Op::Take { idx: item_idx }), r == self.src()[item_idx as int]
    { unimplemented!() }

    #[verifier::external_body]
    unsafe fn split_off_right(&self, left_len: usize, Tracked(log): Tracked<&mut Log>) -> (r: Vec<T>)
        requires left_len <= self.vec_len
        ensures final(log).s == old(log).s.push(Op::Split { left: left_len }), r@ == self.src().subrange(left_len as int, self.vec_len as int)
    { unimplemented!() }

    fn counter(&self) -> &AtomicCounter { &self.counter }

    fn get(&self, item_idx: usize, Tracked(log): Tracked<&mut Log>) -> (r: Option<T>)
        ensures
            item_idx < self.vec_len ==> final(log).s == old(log).s.push(Op::Take { idx: item_idx }) && r == Some(self.src()[item_idx as int]),
            item_idx >= self.vec_len ==> final(log).s == old(log).s && r is None,
    {
        match item_idx.cmp(&self.vec_len) {
            // SAFETY: only one thread can access the `item_idx`-th position and `item_idx` is in bounds
            Ordering::Less => Some(unsafe { self.take_one(item_idx, Tracked(log)) }),
            _ => None,
        }
    }

    fn fetch_one(&self, Tracked(log): Tracked<&mut Log>) -> (r: Option<Next<T>>)
        ensures
            final(log).s.len() >= old(log).s.len() + 1,
            final(log).s[old(log).s.len() as int] is FetchAdd,
            ({ let b = final(log).s[old(log).s.len() as int]->FetchAdd_ret;
               &&& final(log).s[old(log).s.len() as int]->FetchAdd_n == 1
               &&& b < self.vec_len ==> final(log).s == old(log).s.push(Op::FetchAdd{n:1, ret:b}).push(Op::Take{idx:b}) && r is Some && r->0.idx == b && r->0.value == self.src()[b as int]
               &&& b >= self.vec_len ==> final(log).s == old(log).s.push(Op::FetchAdd{n:1, ret:b}) && r is None
            }),
    {
        let idx = self.counter().fetch_and_increment(Tracked(log));
        self.get(idx, Tracked(log)).map(|value| -> (nx: Next<T>) ensures nx.idx == idx && nx.value == value { Next { idx, value } })
    }

    fn drop_impl(&mut self, Tracked(log): Tracked<&mut Log>)
        ensures
            final(log).s.len() >= old(log).s.len() + 1,
            final(log).s[old(log).s.len() as int] is Load,
            ({ let c = final(log).s[old(log).s.len() as int]->Load_ret;
               &&& c <= old(self).vec_len ==> final(log).s == old(log).s.push(Op::Load{ret:c}).push(Op::Split{left:c})
               &&& c > old(self).vec_len ==> final(log).s == old(log).s.push(Op::Load{ret:c}) }),
    {
        let current = self.counter().current(Tracked(log));
        if current <= self.vec_len {
            let _remaining_vec_to_be_dropped = unsafe { self.split_off_right(current, Tracked(log)) };
        }
    }
}
} // verus!
fn main() {}
