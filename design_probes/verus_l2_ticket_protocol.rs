use vstd::prelude::*;
verus! {

pub enum L {
    Idle,
    Wait { b: nat, n: nat, single: bool },
    WaitD { b: nat, n: nat, single: bool },
    Crit { b: nat, n: nat, single: bool, j: nat },
    Rel { b: nat, n: nat, single: bool, j: nat },
    RelD { b: nat, n: nat },
    Done,
}

pub struct G {
    pub r: nat, pub y: nat, pub d: bool,
    pub k: nat, pub x: bool, pub src_len: nat,
    pub th: Map<nat, L>,
    pub deliv: Set<(nat, nat)>,   // (claimed index, actual source position)
}

pub open spec fn live(l: L) -> bool { !(l is Idle) && !(l is Done) }
pub open spec fn tb(l: L) -> nat { match l { L::Wait{b,..} => b, L::WaitD{b,..} => b, L::Crit{b,..} => b, L::Rel{b,..} => b, L::RelD{b,..} => b, _ => 0 } }
pub open spec fn tn(l: L) -> nat { match l { L::Wait{n,..} => n, L::WaitD{n,..} => n, L::Crit{n,..} => n, L::Rel{n,..} => n, L::RelD{n,..} => n, _ => 0 } }
pub open spec fn holder(l: L) -> bool { l is Crit || l is Rel || l is RelD }
pub open spec fn waiting(l: L) -> bool { l is Wait || l is WaitD }

pub open spec fn step(s: G, s2: G, t: nat) -> bool {
    &&& s.th.dom().contains(t) && s2.th.dom() == s.th.dom() && s2.src_len == s.src_len
    &&& forall|u: nat| u != t && s.th.dom().contains(u) ==> #[trigger] s2.th[u] == s.th[u]
    &&& match s.th[t] {
        L::Idle => {   // reserve
            exists|n: nat, single: bool| n >= 1 && (single ==> n == 1)
              && s2.th[t] == (L::Wait { b: s.r, n, single }) && s2.r == s.r + n
              && s2.y == s.y && s2.d == s.d && s2.k == s.k && s2.x == s.x && s2.deliv == s.deliv
        },
        L::Wait { b, n, single } => {   // load Y
            &&& s2.r == s.r && s2.y == s.y && s2.d == s.d && s2.k == s.k && s2.x == s.x && s2.deliv == s.deliv
            &&& s2.th[t] == (if s.y == b { L::Crit { b, n, single, j: 0 } } else if s.y > b { L::Done } else { L::WaitD { b, n, single } })
        },
        L::WaitD { b, n, single } => {  // load D
            &&& s2.r == s.r && s2.y == s.y && s2.d == s.d && s2.k == s.k && s2.x == s.x && s2.deliv == s.deliv
            &&& s2.th[t] == (if s.d { L::Done } else { L::Wait { b, n, single } })
        },
        L::Crit { b, n, single, j } => {  // one call of wrapped next()
            &&& j < n
            &&& s2.r == s.r && s2.y == s.y && s2.d == s.d
            &&& if s.k < s.src_len {
                    s2.k == s.k + 1 && s2.x == s.x && s2.deliv == s.deliv.insert((b + j, s.k))
                    && s2.th[t] == (if j + 1 == n { L::Rel { b, n, single, j: j + 1 } } else { L::Crit { b, n, single, j: j + 1 } })
                } else {
                    s2.k == s.k && s2.x == true && s2.deliv == s.deliv && s2.th[t] == (L::Rel { b, n, single, j })
                }
        },
        L::Rel { b, n, single, j } => {
            &&& s2.r == s.r && s2.k == s.k && s2.x == s.x && s2.deliv == s.deliv
            &&& if single {
                    if j == 1 { s2.y == s.y + 1 && s2.d == s.d && s2.th[t] == L::Done }
                    else { s2.y == s.y && s2.d == true && s2.th[t] == L::Done }
                } else {
                    if j == 0 { s2.y == s.y && s2.d == true && s2.th[t] == (L::RelD { b, n }) }
                    else { s2.y == s.y + n && s2.d == s.d && s2.th[t] == L::Done }
                }
        },
        L::RelD { b, n } => {
            s2.r == s.r && s2.k == s.k && s2.x == s.x && s2.deliv == s.deliv && s2.d == s.d && s2.y == s.y + n && s2.th[t] == L::Done
        },
        L::Done => {
            s2.r == s.r && s2.y == s.y && s2.d == s.d && s2.k == s.k && s2.x == s.x && s2.deliv == s.deliv && s2.th[t] == L::Idle
        },
    }
}

pub open spec fn init(s: G) -> bool {
    s.r == 0 && s.y == 0 && !s.d && s.k == 0 && !s.x && s.deliv == Set::<(nat,nat)>::empty()
    && forall|t: nat| s.th.dom().contains(t) ==> #[trigger] s.th[t] == L::Idle
}

pub open spec fn inv(s: G) -> bool {
    &&& s.y <= s.r
    &&& s.k <= s.src_len
    &&& (s.x ==> s.k == s.src_len)
    &&& forall|t: nat| s.th.dom().contains(t) && live(#[trigger] s.th[t]) ==> tn(s.th[t]) >= 1 && tb(s.th[t]) + tn(s.th[t]) <= s.r
    &&& forall|t: nat, u: nat| t != u && s.th.dom().contains(t) && s.th.dom().contains(u) && live(#[trigger] s.th[t]) && live(#[trigger] s.th[u])
            ==> tb(s.th[t]) + tn(s.th[t]) <= tb(s.th[u]) || tb(s.th[u]) + tn(s.th[u]) <= tb(s.th[t])
    &&& forall|t: nat| s.th.dom().contains(t) && holder(#[trigger] s.th[t]) ==> tb(s.th[t]) == s.y
    &&& forall|t: nat| s.th.dom().contains(t) && waiting(#[trigger] s.th[t]) ==> tb(s.th[t]) >= s.y
    &&& forall|t: nat| s.th.dom().contains(t) && (#[trigger] s.th[t]) is Wait ==> (s.th[t]->Wait_single ==> tn(s.th[t]) == 1)
    &&& forall|t: nat| s.th.dom().contains(t) && (#[trigger] s.th[t]) is WaitD ==> (s.th[t]->WaitD_single ==> tn(s.th[t]) == 1)
    &&& forall|t: nat| s.th.dom().contains(t) && (#[trigger] s.th[t]) is Crit ==> s.th[t]->Crit_j < tn(s.th[t]) && (!s.x ==> s.k == tb(s.th[t]) + s.th[t]->Crit_j) && (s.th[t]->Crit_single ==> tn(s.th[t]) == 1)
    &&& forall|t: nat| s.th.dom().contains(t) && (#[trigger] s.th[t]) is Rel ==> s.th[t]->Rel_j <= tn(s.th[t]) && (!s.x ==> s.k == tb(s.th[t]) + s.th[t]->Rel_j && s.th[t]->Rel_j == tn(s.th[t])) && (s.th[t]->Rel_single ==> tn(s.th[t]) == 1)
    &&& forall|t: nat| s.th.dom().contains(t) && (#[trigger] s.th[t]) is RelD ==> s.x
    &&& (!s.x && (forall|t: nat| s.th.dom().contains(t) ==> !holder(#[trigger] s.th[t])) ==> s.k == s.y)
    // deliveries: exactly the prefix below k, each with the right index
    &&& forall|i: nat, p: nat| s.deliv.contains((i, p)) <==> (i == p && p < s.k)
}

proof fn inv_init(s: G) requires init(s) ensures inv(s) { }

proof fn inv_step(s: G, s2: G, t: nat)
    requires inv(s), step(s, s2, t)
    ensures inv(s2)
{
    assert(forall|u: nat| s.th.dom().contains(u) && u != t ==> s2.th[u] == s.th[u]);
    match s.th[t] {
        L::Idle => { assert(inv(s2)); }
        L::Wait { b, n, single } => { assert(inv(s2)); }
        L::WaitD { b, n, single } => { assert(inv(s2)); }
        L::Crit { b, n, single, j } => { assert(inv(s2)); }
        L::Rel { b, n, single, j } => { assert(inv(s2)); }
        L::RelD { b, n } => { assert(inv(s2)); }
        L::Done => { assert(inv(s2)); }
    }
}

// T-progress (C09 safety half): if somebody waits, completed is false and tickets are outstanding, then either a holder exists
// or the live ticket equal to `yielded` exists (its owner can enter). Needs: every ticket in [y, r) is owned by a live thread.
pub open spec fn owns(s: G, t: nat, p: nat) -> bool {
    s.th.dom().contains(t) && live(s.th[t]) && tb(s.th[t]) <= p < tb(s.th[t]) + tn(s.th[t])
}
pub open spec fn owned(s: G, p: nat) -> bool { exists|t: nat| owns(s, t, p) }
pub open spec fn covered(s: G) -> bool {
    forall|p: nat| s.y <= p < s.r && !s.d ==> #[trigger] owned(s, p)
}

// mutual exclusion (C07 first half): two distinct threads are never both holders
proof fn mutex(s: G, t: nat, u: nat)
    requires inv(s), t != u, s.th.dom().contains(t), s.th.dom().contains(u), holder(s.th[t]), holder(s.th[u])
    ensures false
{ }


proof fn covered_init(s: G) requires init(s) ensures covered(s) { }

proof fn covered_step(s: G, s2: G, t: nat)
    requires inv(s), covered(s), step(s, s2, t)
    ensures covered(s2)
{
    inv_step(s, s2, t);
    assert forall|p: nat| s2.y <= p < s2.r && !s2.d implies #[trigger] owned(s2, p) by {
        if s.y <= p < s.r {
            assert(!s.d);
            assert(owned(s, p));
            let u = choose|u: nat| owns(s, u, p);
            if u != t { assert(s2.th[u] == s.th[u]); assert(owns(s2, u, p)); }
            else { assert(owns(s2, t, p)); }
        } else {
            assert(s.th[t] is Idle);
            assert(owns(s2, t, p));
        }
    }
}

proof fn progress(s: G)
    requires inv(s), covered(s), s.y < s.r, !s.d
    ensures exists|t: nat| s.th.dom().contains(t) && live(#[trigger] s.th[t]) && tb(s.th[t]) == s.y
{
    assert(owned(s, s.y));
    let t = choose|t: nat| owns(s, t, s.y);
    assert(holder(s.th[t]) || waiting(s.th[t]));
    assert(s.th.dom().contains(t) && live(s.th[t]) && tb(s.th[t]) == s.y);
}
} // verus!
fn main() {}
