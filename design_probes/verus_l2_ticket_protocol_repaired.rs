// Design probe: ticket protocol of ConIterOfIter AFTER the F5 repair sketch (completed checked before a turn is accepted,
// early_exit only sets completed), with single / chunk / buffered pulls and skip. SC interleaving model over the L1 log language.
use vstd::prelude::*;
verus! {

pub enum Kind { Single, Chunk, Buffered }

pub enum L {
    Idle,
    WaitD { b: nat, n: nat, k: Kind, late: bool },   // about to load `completed`; late = reserved after completed was already true
    Wait  { b: nat, n: nat, k: Kind },               // about to load `yielded`
    Crit  { b: nat, n: nat, k: Kind, j: nat },
    Rel   { b: nat, n: nat, k: Kind, j: nat },
    RelD  { b: nat, n: nat },
    Done,
}

pub struct G {
    pub r: nat, pub y: nat, pub d: bool,
    pub k: nat, pub x: bool, pub src_len: nat,
    pub th: Map<nat, L>,
    pub deliv: Set<(nat, nat)>,
}

pub open spec fn live(l: L) -> bool { !(l is Idle) && !(l is Done) }
pub open spec fn tb(l: L) -> nat { match l { L::Wait{b,..} => b, L::WaitD{b,..} => b, L::Crit{b,..} => b, L::Rel{b,..} => b, L::RelD{b,..} => b, _ => 0 } }
pub open spec fn tn(l: L) -> nat { match l { L::Wait{n,..} => n, L::WaitD{n,..} => n, L::Crit{n,..} => n, L::Rel{n,..} => n, L::RelD{n,..} => n, _ => 0 } }
pub open spec fn holder(l: L) -> bool { l is Crit || l is Rel || l is RelD }
pub open spec fn waiting(l: L) -> bool { l is Wait || l is WaitD }
pub open spec fn kind_ok(k: Kind, n: nat) -> bool { n >= 1 && (k is Single ==> n == 1) }

pub open spec fn same_shared(s: G, s2: G) -> bool { s2.r == s.r && s2.y == s.y && s2.d == s.d && s2.k == s.k && s2.x == s.x && s2.deliv == s.deliv }

pub open spec fn step(s: G, s2: G, t: nat) -> bool {
    &&& s.th.dom().contains(t) && s2.th.dom() == s.th.dom() && s2.src_len == s.src_len
    &&& forall|u: nat| u != t && s.th.dom().contains(u) ==> #[trigger] s2.th[u] == s.th[u]
    &&& match s.th[t] {
        L::Idle => {
            ||| (exists|n: nat, k: Kind| kind_ok(k, n)                          // reserve: FetchAdd{R,n,b}
                  && s2.th[t] == (L::WaitD { b: s.r, n, k, late: s.d }) && s2.r == s.r + n
                  && s2.y == s.y && s2.d == s.d && s2.k == s.k && s2.x == s.x && s2.deliv == s.deliv)
            ||| (s2.th[t] == L::Done && s2.d == true                             // skip_to_end: FlagStore{true}
                  && s2.r == s.r && s2.y == s.y && s2.k == s.k && s2.x == s.x && s2.deliv == s.deliv)
        },
        L::WaitD { b, n, k, late } => {   // FlagLoad
            &&& same_shared(s, s2)
            &&& s2.th[t] == (if s.d { L::Done } else { L::Wait { b, n, k } })
        },
        L::Wait { b, n, k } => {          // Load{Y}
            &&& same_shared(s, s2)
            &&& s2.th[t] == (if s.y == b { L::Crit { b, n, k, j: 0 } } else if s.y > b { L::Done } else { L::WaitD { b, n, k, late: false } })
        },
        L::Crit { b, n, k, j } => {       // IterNext
            &&& j < n
            &&& s2.r == s.r && s2.y == s.y && s2.d == s.d
            &&& if s.k < s.src_len {
                    s2.k == s.k + 1 && s2.x == s.x && s2.deliv == s.deliv.insert((b + j, s.k))
                    && s2.th[t] == (if j + 1 == n { L::Rel { b, n, k, j: j + 1 } } else { L::Crit { b, n, k, j: j + 1 } })
                } else {
                    s2.k == s.k && s2.x == true && s2.deliv == s.deliv && s2.th[t] == (L::Rel { b, n, k, j })
                }
        },
        L::Rel { b, n, k, j } => {
            &&& s2.r == s.r && s2.k == s.k && s2.x == s.x && s2.deliv == s.deliv
            &&& match k {
                    Kind::Single => if j == 1 { s2.y == s.y + 1 && s2.d == s.d && s2.th[t] == L::Done }
                                    else { s2.y == s.y && s2.d == true && s2.th[t] == L::Done },
                    Kind::Chunk => if j == 0 { s2.y == s.y && s2.d == true && s2.th[t] == (L::RelD { b, n }) }
                                   else { s2.y == s.y + n && s2.d == s.d && s2.th[t] == L::Done },
                    Kind::Buffered => s2.y == s.y + n && s2.d == s.d && s2.th[t] == L::Done,
                }
        },
        L::RelD { b, n } => {
            s2.r == s.r && s2.k == s.k && s2.x == s.x && s2.deliv == s.deliv && s2.d == s.d && s2.y == s.y + n && s2.th[t] == L::Done
        },
        L::Done => { same_shared(s, s2) && s2.th[t] == L::Idle },
    }
}

pub open spec fn init(s: G) -> bool {
    s.r == 0 && s.y == 0 && !s.d && s.k == 0 && !s.x && s.deliv == Set::<(nat,nat)>::empty()
    && forall|t: nat| s.th.dom().contains(t) ==> #[trigger] s.th[t] == L::Idle
}

pub open spec fn inv(s: G) -> bool {
    &&& s.y <= s.r
    &&& s.k <= s.src_len
    &&& (s.x ==> s.k == s.src_len)
    &&& forall|t: nat| s.th.dom().contains(t) && live(#[trigger] s.th[t]) ==> tn(s.th[t]) >= 1 && tb(s.th[t]) + tn(s.th[t]) <= s.r
    &&& forall|t: nat, u: nat| t != u && s.th.dom().contains(t) && s.th.dom().contains(u) && live(#[trigger] s.th[t]) && live(#[trigger] s.th[u])
            ==> tb(s.th[t]) + tn(s.th[t]) <= tb(s.th[u]) || tb(s.th[u]) + tn(s.th[u]) <= tb(s.th[t])
    &&& forall|t: nat| s.th.dom().contains(t) && holder(#[trigger] s.th[t]) ==> tb(s.th[t]) == s.y
    &&& forall|t: nat| s.th.dom().contains(t) && waiting(#[trigger] s.th[t]) ==> tb(s.th[t]) >= s.y
    &&& forall|t: nat| s.th.dom().contains(t) && (#[trigger] s.th[t]) is Wait ==> kind_ok(s.th[t]->Wait_k, tn(s.th[t]))
    &&& forall|t: nat| s.th.dom().contains(t) && (#[trigger] s.th[t]) is WaitD ==> kind_ok(s.th[t]->WaitD_k, tn(s.th[t])) && (s.th[t]->WaitD_late ==> s.d)
    &&& forall|t: nat| s.th.dom().contains(t) && (#[trigger] s.th[t]) is Crit ==> s.th[t]->Crit_j < tn(s.th[t]) && (!s.x ==> s.k == tb(s.th[t]) + s.th[t]->Crit_j) && kind_ok(s.th[t]->Crit_k, tn(s.th[t]))
    &&& forall|t: nat| s.th.dom().contains(t) && (#[trigger] s.th[t]) is Rel ==> s.th[t]->Rel_j <= tn(s.th[t]) && (!s.x ==> s.k == tb(s.th[t]) + s.th[t]->Rel_j && s.th[t]->Rel_j == tn(s.th[t])) && kind_ok(s.th[t]->Rel_k, tn(s.th[t]))
    &&& forall|t: nat| s.th.dom().contains(t) && (#[trigger] s.th[t]) is RelD ==> s.x
    &&& (!s.x && (forall|t: nat| s.th.dom().contains(t) ==> !holder(#[trigger] s.th[t])) ==> s.k == s.y)
    &&& forall|i: nat, p: nat| s.deliv.contains((i, p)) <==> (i == p && p < s.k)
}

proof fn inv_init(s: G) requires init(s) ensures inv(s) { }

proof fn inv_step(s: G, s2: G, t: nat)
    requires inv(s), step(s, s2, t)
    ensures inv(s2), s.d ==> s2.d      // completed is monotone
{
    assert(forall|u: nat| s.th.dom().contains(u) && u != t ==> s2.th[u] == s.th[u]);
}

// C07: mutual exclusion
proof fn mutex(s: G, t: nat, u: nat)
    requires inv(s), t != u, s.th.dom().contains(t), s.th.dom().contains(u), holder(s.th[t]), holder(s.th[u])
    ensures false
{ }

// C06 for wrapped iterators: a pull that reserved after `completed` became true never reaches the wrapped iterator:
// its only possible continuation is WaitD{late} -> Done.
proof fn late_pull_reports_end(s: G, s2: G, t: nat)
    requires inv(s), step(s, s2, t), s.th[t] is WaitD, s.th[t]->WaitD_late
    ensures s2.th[t] is Done
{ }

// C01/C02/C04 for wrapped iterators: what has been delivered is exactly the prefix below K, each with its own index
proof fn delivered_is_prefix(s: G, i: nat, p: nat)
    requires inv(s), s.deliv.contains((i, p))
    ensures i == p, p < s.k, s.k <= s.src_len
{ }

} // verus!
fn main() {}
