use vstd::prelude::*;
use core::cmp::Ordering;
use vstd::std_specs::iter::IteratorSpec;
verus! {
#[verifier::reject_recursive_types(T)]
pub struct NextChunk<T, Iter> where Iter: ExactSizeIterator<Item = T> { pub begin_idx: usize, pub values: Iter }
pub enum Op { FetchAdd { n: usize, ret: usize } }
pub tracked struct Log { pub ghost s: Seq<Op> }

pub struct ConIterOfSlice<'a, T> { pub slice: &'a [T] }
impl<'a, T> ConIterOfSlice<'a, T> {
    pub(crate) fn as_slice(&self) -> (r: &'a [T]) ensures r@ == self.slice@ { self.slice }
    #[verifier::external_body]
    fn progress_and_get_begin_idx(&self, number_to_fetch: usize, Tracked(log): Tracked<&mut Log>) -> (r: Option<usize>)
        ensures final(log).s == old(log).s.push(Op::FetchAdd { n: number_to_fetch, ret: (final(log).s.last()->FetchAdd_ret) }),
            ({ let b = final(log).s.last()->FetchAdd_ret; r == (if b < self.slice@.len() { Some(b) } else { None }) }),
    { unimplemented!() }
}

pub struct BufferedSlice<T> { pub chunk_size: usize, pub phantom: core::marker::PhantomData<T> }
impl<T> BufferedSlice<T> {
    fn chunk_size(&self) -> (r: usize) ensures r == self.chunk_size { self.chunk_size }
    fn pull<'a>(&mut self, iter: &ConIterOfSlice<'a, T>, begin_idx: usize) -> (r: Option<core::slice::Iter<'a, T>>)
        requires begin_idx + old(self).chunk_size <= usize::MAX
        ensures final(self).chunk_size == old(self).chunk_size,
            begin_idx < iter.slice@.len() ==> r is Some && ({ let e = if begin_idx + old(self).chunk_size <= iter.slice@.len() { begin_idx + old(self).chunk_size } else { iter.slice@.len() as int };
                r->0.remaining() == iter.slice@.subrange(begin_idx as int, e).as_ref() }),
            begin_idx >= iter.slice@.len() ==> r is None,
    {
        let slice = iter.as_slice();
        match begin_idx.cmp(&slice.len()) {
            Ordering::Less => {
                let end_idx = (begin_idx + self.chunk_size)
                    .min(slice.len())
                    .max(begin_idx);
                let values = slice[begin_idx..end_idx].iter();
                Some(values)
            }
            _ => None,
        }
    }
}

} // verus!
fn main() {}
