// Design probe (not machinery). Appended to src/iter/implementors/iter.rs of a scratch copy of /repo:
//   cargo kani -Z stubbing --harness iter_next_l1 --harness iter_chunk_l1
// NOTE: Kani 0.68 gives spurious __rust_dealloc failures as soon as a harness writes a `static mut`
// and any Vec is dropped; logs therefore live in a `static` UnsafeCell.
#[cfg(kani)]
mod verif_kani {
    use super::*;
    use std::cell::UnsafeCell;

    // entry: (loc, kind, arg, ret, ord); loc: 1=reserved 2=yielded 3=completed 9=wrapped iterator; kind: 1=fetch_add 2=load 3=store 4=next
    type E = (u8, u8, usize, usize, u8);
    struct St { n: usize, log: [E; 12], last_y: usize, dpolls: usize, r: *const AtomicCounter, y: *const AtomicCounter }
    struct G(UnsafeCell<St>);
    unsafe impl Sync for G {}
    static ST: G = G(UnsafeCell::new(St { n: 0, log: [(0, 0, 0, 0, 0); 12], last_y: 0, dpolls: 0, r: std::ptr::null(), y: std::ptr::null() }));
    fn st() -> &'static mut St { unsafe { &mut *ST.0.get() } }
    fn push(e: E) { let s = st(); assert!(s.n < 12); s.log[s.n] = e; s.n += 1; }
    fn loc(a: *const AtomicCounter) -> u8 { let s = st(); if std::ptr::eq(a, s.r) { 1 } else if std::ptr::eq(a, s.y) { 2 } else { 0 } }

    // stubs of the crate's AtomicCounter methods: pure havoc on `reserved`; rely "nobody moves `yielded` while I hold its ticket" on `yielded`
    fn c_faa(a: &AtomicCounter, val: usize) -> usize {
        let r: usize = kani::any();
        let l = loc(a);
        if l == 1 { kani::assume(r <= usize::MAX - val); } // no-wrap regime
        if l == 2 { kani::assume(r == st().last_y); }
        push((l, 1, val, r, 3));
        r
    }
    fn c_inc(a: &AtomicCounter) -> usize { c_faa(a, 1) }
    fn c_cur(a: &AtomicCounter) -> usize {
        let r: usize = kani::any();
        let l = loc(a);
        if l == 2 { st().last_y = r; }
        push((l, 2, 0, r, 0));
        r
    }
    fn s_bload(_a: &AtomicBool, _o: atomic::Ordering) -> bool {
        let r: bool = kani::any();
        let s = st(); s.dpolls += 1; if s.dpolls >= 2 { kani::assume(r); } // at most 2 fruitless polls (bounded)
        push((3, 2, 0, r as usize, 0));
        r
    }
    fn s_bstore(_a: &AtomicBool, v: bool, _o: atomic::Ordering) { push((3, 3, v as usize, 0, 4)); }

    struct Probe { k: usize, len: usize }
    impl Iterator for Probe {
        type Item = usize;
        fn next(&mut self) -> Option<usize> {
            let r = if self.k < self.len { self.k += 1; Some(self.k - 1) } else { None };
            push((9, 4, 0, match r { Some(x) => x.wrapping_add(1), None => 0 }, 0));
            r
        }
    }

    #[kani::proof]
    #[kani::unwind(4)]
    #[kani::stub(crate::iter::atomic_counter::AtomicCounter::fetch_and_add, c_faa)]
    #[kani::stub(crate::iter::atomic_counter::AtomicCounter::fetch_and_increment, c_inc)]
    #[kani::stub(crate::iter::atomic_counter::AtomicCounter::current, c_cur)]
    #[kani::stub(std::sync::atomic::Atomic::<bool>::load, s_bload)]
    #[kani::stub(std::sync::atomic::Atomic::<bool>::store, s_bstore)]
    fn iter_next_l1() {
        let k: usize = kani::any();
        let len: usize = kani::any();
        kani::assume(k <= len && len < usize::MAX);
        let it = ConIterOfIter::new(Probe { k, len });
        st().r = &it.reserved_counter; st().y = &it.yielded_counter;
        let r = it.next_id_and_value();
        let s = st();
        assert!(s.n >= 2);
        assert!(s.log[0].0 == 1 && s.log[0].1 == 1 && s.log[0].2 == 1);
        let b = s.log[0].3;
        if let Some(nx) = r {
            assert!(nx.idx == b);
            assert!(s.n >= 4);
            let last = s.log[s.n - 1];
            assert!(last.0 == 2 && last.1 == 1 && last.2 == 1);   // publishes exactly 1 on `yielded`
            let nxt = s.log[s.n - 2];
            assert!(nxt.0 == 9 && nxt.3 == nx.value + 1);          // value is what the wrapped iterator returned
            let ld = s.log[s.n - 3];
            assert!(ld.0 == 2 && ld.1 == 2 && ld.3 == b);           // admitted by observing yielded == its ticket
        }
    }

    #[kani::proof]
    #[kani::unwind(5)]
    #[kani::stub(crate::iter::atomic_counter::AtomicCounter::fetch_and_add, c_faa)]
    #[kani::stub(crate::iter::atomic_counter::AtomicCounter::fetch_and_increment, c_inc)]
    #[kani::stub(crate::iter::atomic_counter::AtomicCounter::current, c_cur)]
    #[kani::stub(std::sync::atomic::Atomic::<bool>::load, s_bload)]
    #[kani::stub(std::sync::atomic::Atomic::<bool>::store, s_bstore)]
    fn iter_chunk_l1() {
        let k: usize = kani::any();
        let len: usize = kani::any();
        kani::assume(k <= len && len < usize::MAX);
        let it = ConIterOfIter::new(Probe { k, len });
        st().r = &it.reserved_counter; st().y = &it.yielded_counter;
        let n: usize = kani::any();
        kani::assume(n >= 1 && n <= 3);
        let r = it.next_chunk(n);
        let s = st();
        assert!(s.log[0].0 == 1 && s.log[0].1 == 1 && s.log[0].2 == n);
        let b = s.log[0].3;
        if let Some(mut c) = r {
            assert!(c.begin_idx == b);
            let l = c.values.len();
            assert!(l >= 1 && l <= n);
            assert!(c.values.next() == Some(k));
            let last = s.log[s.n - 1];
            assert!(last.0 == 2 && last.1 == 1 && last.2 == n);   // publishes the whole reservation on `yielded`
        }
    }

    use std::sync::atomic::Ordering as O;
    fn oc(o: O) -> u8 { match o { O::Relaxed => 0, O::Release => 1, O::Acquire => 2, O::AcqRel => 3, O::SeqCst => 4, _ => 9 } }
    fn loc2(a: *const std::sync::atomic::AtomicUsize) -> u8 { loc(a as *const AtomicCounter) }
    fn a_faa(a: &std::sync::atomic::AtomicUsize, val: usize, o: O) -> usize {
        let r: usize = kani::any();
        let l = loc2(a);
        if l == 1 { kani::assume(r <= usize::MAX - val); }
        if l == 2 { kani::assume(r == st().last_y); }
        push((l, 1, val, r, oc(o)));
        r
    }
    fn a_load(a: &std::sync::atomic::AtomicUsize, o: O) -> usize {
        let r: usize = kani::any();
        let l = loc2(a);
        if l == 2 { st().last_y = r; }
        push((l, 2, 0, r, oc(o)));
        r
    }
    #[kani::proof]
    #[kani::unwind(14)]
    #[kani::stub(std::sync::atomic::Atomic::<usize>::fetch_add, a_faa)]
    #[kani::stub(std::sync::atomic::Atomic::<usize>::load, a_load)]
    #[kani::stub(std::sync::atomic::Atomic::<bool>::load, s_bload)]
    #[kani::stub(std::sync::atomic::Atomic::<bool>::store, s_bstore)]
    fn iter_chunk_l1_stdstub() {
        let k: usize = kani::any();
        let len: usize = kani::any();
        kani::assume(k <= len && len < usize::MAX);
        let it = ConIterOfIter::new(Probe { k, len });
        st().r = &it.reserved_counter; st().y = &it.yielded_counter;
        let n: usize = kani::any();
        kani::assume(n >= 1 && n <= 3);
        let r = it.next_chunk(n);
        let s = st();
        assert!(s.log[0].0 == 1 && s.log[0].1 == 1 && s.log[0].2 == n && s.log[0].4 == 3);
        let b = s.log[0].3;
        if let Some(mut c) = r {
            assert!(c.begin_idx == b);
            assert!(c.values.next() == Some(k));
            // ordering discipline (C07): the admitting load of `yielded` must be >= Acquire -- expected to FAIL on the pinned tree (Relaxed)
            let mut i = 0; let mut ok = true;
            while i < 12 { if i < s.n && s.log[i].0 == 2 && s.log[i].1 == 2 && s.log[i].3 == b && s.log[i].4 < 2 { ok = false; } i += 1; }
            assert!(ok, "C07-ord: admitting load of yielded is not Acquire");
        }
    }
}
