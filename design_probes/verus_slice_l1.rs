use vstd::prelude::*;
use core::cmp::Ordering;
use vstd::std_specs::iter::IteratorSpec;
verus! {

pub struct Next<T> { pub idx: usize, pub value: T }
#[verifier::reject_recursive_types(T)]
pub struct NextChunk<T, Iter> where Iter: ExactSizeIterator<Item = T> { pub begin_idx: usize, pub values: Iter }

pub tracked struct Log { pub ghost s: Seq<Op> }
pub enum Op { FetchAdd { n: usize, ret: usize }, Load { ret: usize }, Store { v: usize } }

#[verifier::external_body]
pub struct AtomicCounter { current: std::sync::atomic::AtomicUsize }

impl AtomicCounter {
    #[verifier::external_body]
    pub fn fetch_and_add(&self, len: usize, Tracked(log): Tracked<&mut Log>) -> (r: usize)
        ensures final(log).s == old(log).s.push(Op::FetchAdd { n: len, ret: r })
    { unimplemented!() }
    #[verifier::external_body]
    pub fn fetch_and_increment(&self, Tracked(log): Tracked<&mut Log>) -> (r: usize)
        ensures final(log).s == old(log).s.push(Op::FetchAdd { n: 1, ret: r })
    { unimplemented!() }
    #[verifier::external_body]
    pub fn current(&self, Tracked(log): Tracked<&mut Log>) -> (r: usize)
        ensures final(log).s == old(log).s.push(Op::Load { ret: r })
    { unimplemented!() }
    #[verifier::external_body]
    pub fn store(&self, new_value: usize, Tracked(log): Tracked<&mut Log>)
        ensures final(log).s == old(log).s.push(Op::Store { v: new_value })
    { unimplemented!() }
}

pub struct ConIterOfSlice<'a, T> {
    pub slice: &'a [T],
    pub counter: AtomicCounter,
}

pub open spec fn clamp_end(b: int, n: int, len: int) -> int {
    if b >= len { b } else if b + n <= len { b + n } else { len }
}

impl<'a, T> ConIterOfSlice<'a, T> {
    fn counter(&self) -> &AtomicCounter {
        &self.counter
    }
    fn initial_len(&self) -> (r: usize) ensures r == self.slice@.len() {
        self.slice.len()
    }

    fn progress_and_get_begin_idx(&self, number_to_fetch: usize, Tracked(log): Tracked<&mut Log>) -> (r: Option<usize>) 
        ensures
            final(log).s.len() == old(log).s.len() + 1,
            final(log).s.subrange(0, old(log).s.len() as int) == old(log).s,
            final(log).s.last() is FetchAdd,
            final(log).s.last()->FetchAdd_n == number_to_fetch,
            ({ let b = final(log).s.last()->FetchAdd_ret; r == (if b < self.slice@.len() { Some(b) } else { None }) }),
    {
        let begin_idx = self.counter().fetch_and_add(number_to_fetch, Tracked(log));
        match begin_idx.cmp(&self.initial_len()) {
            Ordering::Less => Some(begin_idx),
            _ => None,
        }
    }

    fn get(&self, item_idx: usize) -> (r: Option<&'a T>)
        ensures r == (if item_idx < self.slice@.len() { Some(&self.slice@[item_idx as int]) } else { None })
    {
        self.slice.get(item_idx)
    }

    fn fetch_n(&self, n: usize, Tracked(log): Tracked<&mut Log>) -> (r: Option<NextChunk<&'a T, core::slice::Iter<'a, T>>>)
        requires n as int + self.slice@.len() <= usize::MAX
        ensures
            final(log).s.len() == old(log).s.len() + 1,
            final(log).s.last() is FetchAdd,
            final(log).s.last()->FetchAdd_n == n,
            ({ let b = final(log).s.last()->FetchAdd_ret as int; let len = self.slice@.len() as int; let e = clamp_end(b, n as int, len);
               match r { 
                  Some(c) => b < e && c.begin_idx == b && c.values.remaining() == self.slice@.subrange(b, e).as_ref(),
                  None => b == e } }),
    {
        let begin_idx = self
            .progress_and_get_begin_idx(n, Tracked(log))
            .unwrap_or(self.initial_len());
        let end_idx = (begin_idx + n).min(self.initial_len()).max(begin_idx);

        match begin_idx.cmp(&end_idx) {
            Ordering::Equal => None,
            _ => {
                let values = self.slice[begin_idx..end_idx].iter();
                Some(NextChunk { begin_idx, values })
            }
        }
    }

    fn early_exit(&self, Tracked(log): Tracked<&mut Log>) 
        ensures final(log).s == old(log).s.push(Op::Store { v: self.slice@.len() as usize })
    {
        self.counter().store(self.slice.len(), Tracked(log))
    }

    fn try_get_len(&self, Tracked(log): Tracked<&mut Log>) -> (r: Option<usize>)
        ensures
            final(log).s.len() == old(log).s.len() + 1,
            final(log).s.last() is Load,
            ({ let c = final(log).s.last()->Load_ret as int; let len = self.slice@.len() as int; r == Some((if c < len { len - c } else { 0 }) as usize) }),
    {
        let current = self.counter().current(Tracked(log));
        let initial_len = self.initial_len();
        let len = match current.cmp(&initial_len) {
            std::cmp::Ordering::Less => initial_len - current,
            _ => 0,
        };
        Some(len)
    }
}

} // verus!
fn main() {}
