// Design probe (not machinery). Appended to src/iter/implementors/range.rs of a scratch copy of /repo:
//   cargo kani -Z stubbing --harness range_l1     (SUCCESSFUL, 10.7 s; loop-free, full usize domain for start, end, n and every atomic result)
// Without the `lim` assumptions the only failures are the F6 overflows (range.rs:108,122,247).
#[cfg(kani)]
mod verif_kani {
    use super::*;
    use std::cell::UnsafeCell;
    struct St { lim: usize, n: usize, kind: [u8; 4], arg: [usize; 4], ret: [usize; 4] }
    struct G(UnsafeCell<St>);
    unsafe impl Sync for G {}
    static ST: G = G(UnsafeCell::new(St { lim: usize::MAX, n: 0, kind: [0; 4], arg: [0; 4], ret: [0; 4] }));
    fn st() -> &'static mut St { unsafe { &mut *ST.0.get() } }
    fn push(k: u8, a: usize, r: usize) { let s = st(); assert!(s.n < 4); s.kind[s.n] = k; s.arg[s.n] = a; s.ret[s.n] = r; s.n += 1; }
    fn c_faa(_a: &AtomicCounter, val: usize) -> usize { let r: usize = kani::any(); kani::assume(val <= st().lim && r <= st().lim - val); push(1, val, r); r }
    fn c_inc(a: &AtomicCounter) -> usize { c_faa(a, 1) }
    fn c_cur(_a: &AtomicCounter) -> usize { let r: usize = kani::any(); kani::assume(r <= st().lim); push(2, 0, r); r }
    fn c_store(_a: &AtomicCounter, v: usize) { push(3, v, 0); }

    fn clamp_end(b: usize, n: usize, len: usize) -> usize { if b >= len { b } else if n <= len - b { b + n } else { len } }

    #[kani::proof]
    #[kani::stub(crate::iter::atomic_counter::AtomicCounter::fetch_and_add, c_faa)]
    #[kani::stub(crate::iter::atomic_counter::AtomicCounter::fetch_and_increment, c_inc)]
    #[kani::stub(crate::iter::atomic_counter::AtomicCounter::current, c_cur)]
    #[kani::stub(crate::iter::atomic_counter::AtomicCounter::store, c_store)]
    fn range_l1() {
        let s: usize = kani::any();
        let e: usize = kani::any();
        let len = if e >= s { e - s } else { 0 };
        let it = ConIterOfRange::new(s..e);
        st().lim = usize::MAX - s; // overflow-free regime: start + counter + n never exceeds usize::MAX (F6 excluded)
        let op: u8 = kani::any();
        kani::assume(op < 5);
        if op == 0 {
            let r = it.next_id_and_value();
            let l = st();
            assert!(l.n == 1 && l.kind[0] == 1 && l.arg[0] == 1);
            let b = l.ret[0];
            kani::assume(b <= usize::MAX - s); // excluded here: F6 (start + idx overflows); checked without this line under C16/C05
            match r { Some(nx) => { assert!(b < len && nx.idx == b && nx.value == s + b); } None => assert!(b >= len) }
        } else if op == 1 {
            let n: usize = kani::any();
            let r = it.next_chunk(n);
            let l = st();
            assert!(l.n == 1 && l.kind[0] == 1 && l.arg[0] == n);
            let b = l.ret[0];
            kani::assume(b <= usize::MAX - n); // no-wrap regime (C01..C05); C16 drops this line
            let en = clamp_end(b, n, len);
            match r {
                Some(mut c) => { assert!(b < en && c.begin_idx == b && c.values.len() == en - b); assert!(c.values.next() == Some(s + b)); }
                None => assert!(b == en),
            }
        } else if op == 2 {
            it.skip_to_end();
            let l = st();
            assert!(l.n == 1 && l.kind[0] == 3 && l.arg[0] >= len);
        } else if op == 3 {
            let r = it.try_get_len();
            let l = st();
            assert!(l.n == 1 && l.kind[0] == 2);
            let c = l.ret[0];
            assert!(r == Some(if c < len { len - c } else { 0 }));
        } else {
            let r = it.into_seq_iter();
            let l = st();
            assert!(l.n == 1 && l.kind[0] == 2);
            let c = l.ret[0];
            kani::assume(c <= usize::MAX - s); // F6 again
            if c < len { assert!(r.start == s + c && r.end == e); } else { assert!(r.start >= r.end); }
        }
    }
}
