// @module src/iter/default_fns/for_each.rs
// C12: for_each / enumerate_for_each / fold on the real code under rely-guarantee interference (other threads advance the counter
// arbitrarily between this call's own atomic steps): the closure is invoked exactly once for every position this call reserved,
// with index == position and value == src[index]; the call returns only after one of its own pulls observed the end.  Globally
// "once per source element" is then C01.  Bounded: source length <= 3, chunk size <= 3, environment steps unbounded in size.
mod vk_foreach {
    use crate::verif_common::*;
    use crate::{ConIterOfSlice, ConIterOfRange, ConcurrentIter};

    const N: usize = 3;

    fn chk_visits(len: usize, visits: &[u8; N]) {
        let mut p = 0;
        while p < N {
            if p < len {
                if rg_own(p) { assert!(visits[p] == 1, "[C12 C01 once-per-own] the function is invoked exactly once for every position this call reserved"); }
                else { assert!(visits[p] == 0, "[C12 C01 only-own] the function is never invoked for a position reserved by somebody else"); }
            } else { assert!(visits[p] == 0, "[C12 C01 in-range] the function is never invoked for a position past the end"); }
            p += 1;
        }
        assert!(rg().n >= 1 && rg_last_ret() >= len, "[C12 returns-exhausted] the call returns only after one of its pulls observed the end of the iterator");
    }

    // @harness name=foreach_slice props=C12,C02,C01 kind=bounded bound="slice length <= 3; chunk size in 1..=3 (both code paths); interference steps of any size"
    #[kani::proof]
    #[kani::unwind(7)]
    #[kani::stub(crate::iter::atomic_counter::AtomicCounter::fetch_and_add, rg_faa)]
    #[kani::stub(crate::iter::atomic_counter::AtomicCounter::fetch_and_increment, rg_inc)]
    #[kani::stub(crate::iter::atomic_counter::AtomicCounter::current, rg_cur)]
    fn foreach_slice() {
        let data: [u8; N] = kani::any();
        let len: usize = kani::any();
        kani::assume(len <= N);
        let slice = &data[..len];
        let it = ConIterOfSlice::new(slice);
        let chunk: usize = kani::any();
        kani::assume(chunk >= 1 && chunk <= 3);
        let mut visits = [0u8; N];
        let which: bool = kani::any();
        if which {
            it.enumerate_for_each(chunk, |i, v| {
                assert!(i < len, "[C12 C02 index-in-range] the enumerated index is a source position");
                assert!(std::ptr::eq(v, &slice[i]), "[C12 C02 index-value] enumerate_for_each passes the element found at the index it passes");
                visits[i] += 1;
            });
        } else {
            let base = slice.as_ptr() as usize;
            it.for_each(chunk, |v| { let i = (v as *const u8 as usize) - base; assert!(i < len, "[C12 in-range] for_each passes elements of the source"); visits[i] += 1; });
        }
        kani::cover!(chunk == 1 && len == 3, "single-pull code path");
        kani::cover!(chunk == 2 && len == 3 && rg().n >= 2, "buffered code path, several pulls");
        chk_visits(len, &visits);
    }

    // @harness name=fold_slice props=C12 kind=bounded bound="slice length <= 3; chunk size in 1..=3; interference steps of any size"
    #[kani::proof]
    #[kani::unwind(7)]
    #[kani::stub(crate::iter::atomic_counter::AtomicCounter::fetch_and_add, rg_faa)]
    #[kani::stub(crate::iter::atomic_counter::AtomicCounter::fetch_and_increment, rg_inc)]
    #[kani::stub(crate::iter::atomic_counter::AtomicCounter::current, rg_cur)]
    fn fold_slice() {
        let data: [u8; N] = kani::any();
        let len: usize = kani::any();
        kani::assume(len <= N);
        let slice = &data[..len];
        let it = ConIterOfSlice::new(slice);
        let chunk: usize = kani::any();
        kani::assume(chunk >= 1 && chunk <= 3);
        // fold with an order-sensitive, exact accumulator: (number of elements, sum of (k+1)-th element * 256^k)
        let r = it.fold(chunk, (0usize, 0u32), |(k, acc), v| (k + 1, acc + ((*v as u32) << (8 * k as u32))));
        kani::cover!(chunk == 2 && r.0 == 2, "two own elements");
        // expected: left fold over this call's own positions in increasing order
        let mut k = 0usize; let mut acc = 0u32; let mut p = 0;
        while p < N { if p < len && rg_own(p) { acc += (slice[p] as u32) << (8 * k as u32); k += 1; } p += 1; }
        assert!(r.0 == k, "[C12 fold-count] fold consumes exactly the elements this call reserved");
        assert!(r.1 == acc, "[C12 fold-result] fold is the left fold of exactly those elements, in source order");
        assert!(rg().n >= 1 && rg_last_ret() >= len, "[C12 returns-exhausted] the call returns only after one of its pulls observed the end of the iterator");
    }

    // @harness name=foreach_range props=C12,C02,C01 tier=thorough kind=bounded bound="range length <= 3, any start; chunk size in 1..=3; interference steps of any size"
    #[kani::proof]
    #[kani::unwind(7)]
    #[kani::stub(crate::iter::atomic_counter::AtomicCounter::fetch_and_add, rg_faa)]
    #[kani::stub(crate::iter::atomic_counter::AtomicCounter::fetch_and_increment, rg_inc)]
    #[kani::stub(crate::iter::atomic_counter::AtomicCounter::current, rg_cur)]
    fn foreach_range() {
        let s: usize = kani::any();
        let len: usize = kani::any();
        kani::assume(len <= N && s <= usize::MAX - len);
        let it = ConIterOfRange::new(s..s + len);
        let chunk: usize = kani::any();
        kani::assume(chunk >= 1 && chunk <= 3);
        let mut visits = [0u8; N];
        it.enumerate_for_each(chunk, |i, v| {
            assert!(i < len, "[C12 C02 index-in-range] the enumerated index is a source position");
            assert!(v == s + i, "[C12 C02 index-value] enumerate_for_each passes the element found at the index it passes");
            visits[i] += 1;
        });
        kani::cover!(chunk == 2 && len == 3, "buffered code path");
        chk_visits(len, &visits);
    }

    // for_each / fold over a wrapped iterator of unknown length (inexact, even untruthful size hint), real atomics, one thread:
    // every element exactly once, in order, and the call returns (the unwinding assertions bound the number of pulls)
    struct Src { k: usize, len: usize, hint: (usize, Option<usize>) }
    impl Iterator for Src {
        type Item = usize;
        fn next(&mut self) -> Option<usize> { if self.k < self.len { self.k += 1; Some(self.k - 1) } else { None } }
        fn size_hint(&self) -> (usize, Option<usize>) { self.hint }
    }
    // (one harness per code path: a symbolic choice between them makes CBMC explode)
    fn run_foreach_iter(which: u8, chunk: usize) {
        use crate::ConIterOfIter;
        let len: usize = kani::any();
        kani::assume(len <= 2);
        let honest: bool = kani::any();
        let hint = if honest { (len, Some(len)) } else { (kani::any(), kani::any()) };
        let it = ConIterOfIter::new(Src { k: 0, len, hint });
        let mut cnt = 0usize;
        if which == 0 {
            it.for_each(chunk, |v| { assert!(v == cnt, "[C12 C01 C04 iter-foreach-order] a single thread's for_each visits the elements in source order, each once"); cnt += 1; });
        } else if which == 1 {
            it.enumerate_for_each(chunk, |i, v| { assert!(i == v && v == cnt, "[C12 C01 C02 C04 iter-foreach-order] enumerate_for_each passes (position, element) in source order, each once"); cnt += 1; });
        } else {
            cnt = it.fold(chunk, 0usize, |k, v| { assert!(v == k, "[C12 C01 C04 iter-fold-order] fold consumes the elements in source order, each once"); k + 1 });
        }
        kani::cover!(len == 2 && !honest, "two elements, inexact hint");
        assert!(cnt == len, "[C12 C01 iter-foreach-all] every element of the wrapped iterator is visited before the call returns");
    }
    // @harness name=foreach_iter_single props=C12,C01,C04 kind=bounded bound="wrapped iterator of length <= 2 with an arbitrary size hint; for_each with chunk size 1; sequential (real atomics)"
    #[kani::proof]
    #[kani::unwind(6)]
    fn foreach_iter_single() { run_foreach_iter(0, 1); }
    // @harness name=foreach_iter_buffered props=C12,C01,C04 kind=bounded bound="wrapped iterator of length <= 2 with an arbitrary size hint; for_each with chunk size 2; sequential (real atomics)"
    #[kani::proof]
    #[kani::unwind(6)]
    fn foreach_iter_buffered() { run_foreach_iter(0, 2); }
    // @harness name=foreach_iter_enumerate props=C12,C01,C02,C04 kind=bounded bound="wrapped iterator of length <= 2 with an arbitrary size hint; enumerate_for_each with chunk size 2; sequential (real atomics)"
    #[kani::proof]
    #[kani::unwind(6)]
    fn foreach_iter_enumerate() { run_foreach_iter(1, 2); }
    // @harness name=foreach_iter_fold props=C12,C01,C04 kind=bounded bound="wrapped iterator of length <= 2 with an arbitrary size hint; fold with chunk size 2; sequential (real atomics)"
    #[kani::proof]
    #[kani::unwind(6)]
    fn foreach_iter_fold() { run_foreach_iter(2, 2); }

    // index arithmetic of enumerate_for_each / for_each / fold at the upper end of the position domain: the range 0..usize::MAX, all but
    // the last <= 3 positions already taken by others (scripted counter: the first reservation returns a position near the end, every
    // later one a position past it).  Indices stay exact and nothing overflows, in both builds.
    struct Script(std::cell::UnsafeCell<(usize, usize)>);   // (calls so far, position the first reservation returns)
    unsafe impl Sync for Script {}
    static SCRIPT: Script = Script(std::cell::UnsafeCell::new((0, 0)));
    fn tail_faa(_a: &crate::iter::atomic_counter::AtomicCounter, _val: usize) -> usize { let s = unsafe { &mut *SCRIPT.0.get() }; s.0 += 1; if s.0 == 1 { s.1 } else { usize::MAX } }
    fn tail_inc(a: &crate::iter::atomic_counter::AtomicCounter) -> usize { tail_faa(a, 1) }
    // @harness name=foreach_range_tail group=default,nodebug props_nodebug=C17 props=C16,C12,C02,C17 kind=bounded bound="range 0..usize::MAX; first reservation at any of the last 3 positions; chunk size in 1..=3"
    #[kani::proof]
    #[kani::unwind(7)]
    #[kani::stub(crate::iter::atomic_counter::AtomicCounter::fetch_and_add, tail_faa)]
    #[kani::stub(crate::iter::atomic_counter::AtomicCounter::fetch_and_increment, tail_inc)]
    fn foreach_range_tail() {
        let len = usize::MAX;
        let it = ConIterOfRange::new(0..len);
        let b0: usize = kani::any();
        kani::assume(b0 >= len - 3 && b0 < len);
        unsafe { *SCRIPT.0.get() = (0, b0); }
        let chunk: usize = kani::any();
        kani::assume(chunk >= 1 && chunk <= 3);
        let which: u8 = kani::any();
        kani::assume(which < 3);
        let mut cnt = 0usize;
        if which == 0 {
            it.enumerate_for_each(chunk, |i, v| { assert!(i == v && i == b0 + cnt && i < len, "[C16 C12 C02 tail-index] enumerate_for_each passes exact indices up to the last position usize::MAX - 1"); cnt += 1; });
        } else if which == 1 {
            it.for_each(chunk, |v| { assert!(v == b0 + cnt && v < len, "[C16 C12 tail-value] for_each passes the elements of its reservation up to the last position"); cnt += 1; });
        } else {
            cnt = it.fold(chunk, 0usize, |k, v| { assert!(v == b0 + k && v < len, "[C16 C12 tail-value] fold consumes the elements of its reservation up to the last position"); k + 1 });
        }
        kani::cover!(which == 0 && chunk == 3 && b0 == len - 2, "a chunk that is cut at the last position");
        let want = if chunk < len - b0 { chunk } else { len - b0 };
        assert!(cnt == want, "[C16 C12 tail-count] exactly the positions of the reservation that exist are visited");
    }

    // documented panics for chunk size zero (C16): #[kani::should_panic] harnesses -- each passes iff the call panics
    // @harness name=chunk_zero_panics_for_each group=default,nodebug props_nodebug=C17 props=C16,C12 kind=complete expect=panic
    #[kani::proof]
    #[kani::should_panic]
    fn chunk_zero_panics_for_each() { let data = [1u8, 2, 3]; let it = ConIterOfSlice::new(&data[..]); it.for_each(0, |_| {}); }

    // @harness name=chunk_zero_panics_enumerate group=default,nodebug props_nodebug=C17 props=C16,C12 kind=complete expect=panic
    #[kani::proof]
    #[kani::should_panic]
    fn chunk_zero_panics_enumerate() { let data = [1u8, 2, 3]; let it = ConIterOfSlice::new(&data[..]); it.enumerate_for_each(0, |_, _| {}); }

    // @harness name=chunk_zero_panics_fold group=default,nodebug props_nodebug=C17 props=C16,C12 kind=complete expect=panic
    #[kani::proof]
    #[kani::should_panic]
    fn chunk_zero_panics_fold() { let data = [1u8, 2, 3]; let it = ConIterOfSlice::new(&data[..]); let _ = it.fold(0, 0u8, |a, _| a); }

    // @harness name=chunk_zero_panics_buffered group=default,nodebug props_nodebug=C17 props=C16 kind=complete expect=panic
    #[kani::proof]
    #[kani::should_panic]
    fn chunk_zero_panics_buffered() { let data = [1u8, 2, 3]; let it = ConIterOfSlice::new(&data[..]); let _ = it.buffered_iter(0); }

    // ... for the buffered puller of every source kind (each kind has its own buffer type and constructor)
    // @harness name=chunk_zero_panics_buffered_vec group=default,nodebug props_nodebug=C17 props=C16 kind=complete expect=panic
    #[kani::proof]
    #[kani::should_panic]
    fn chunk_zero_panics_buffered_vec() { let it = crate::ConIterOfVec::new(vec![1u8, 2, 3]); let _ = it.buffered_iter(0); std::mem::forget(it); }

    // @harness name=chunk_zero_panics_buffered_array group=default,nodebug props_nodebug=C17 props=C16 kind=complete expect=panic
    #[kani::proof]
    #[kani::should_panic]
    fn chunk_zero_panics_buffered_array() { let it = crate::ConIterOfArray::new([1u8, 2, 3]); let _ = it.buffered_iter(0); std::mem::forget(it); }

    // @harness name=chunk_zero_panics_buffered_range group=default,nodebug props_nodebug=C17 props=C16 kind=complete expect=panic
    #[kani::proof]
    #[kani::should_panic]
    fn chunk_zero_panics_buffered_range() { let it = ConIterOfRange::new(0usize..3); let _ = it.buffered_iter(0); }

    // @harness name=chunk_zero_panics_buffered_iter group=default,nodebug props_nodebug=C17 props=C16 kind=complete expect=panic
    #[kani::proof]
    #[kani::should_panic]
    fn chunk_zero_panics_buffered_iter() { let it = crate::ConIterOfIter::new([1u8, 2, 3].into_iter()); let _ = it.buffered_iter(0); }

    // @harness name=chunk_zero_panics_buffered_cloned group=default,nodebug props_nodebug=C17 props=C16 kind=complete expect=panic
    #[kani::proof]
    #[kani::should_panic]
    fn chunk_zero_panics_buffered_cloned() { use crate::IntoCloned; let data = [1u8, 2, 3]; let it = ConIterOfSlice::new(&data[..]).cloned(); let _ = it.buffered_iter(0); }

    // @harness name=chunk_zero_panics_buffered_copied_iter group=default,nodebug props_nodebug=C17 props=C16 kind=complete expect=panic
    #[kani::proof]
    #[kani::should_panic]
    fn chunk_zero_panics_buffered_copied_iter() { use crate::IntoCopied; let data = [1u8, 2, 3]; let it = crate::ConIterOfIter::new(data.iter()).copied(); let _ = it.buffered_iter(0); }
}
