// @module src/iter/atomic_counter.rs
// AtomicCounter on the compiled crate with the std atomics stubbed: each method is exactly one std atomic operation, with the
// ordering the discipline of C07 needs (cross-check of the Verus counter contract, contracts/common.vrs).  Loop-free, full domain.
mod vk_counter {
    use super::*;
    use crate::verif_common::*;

    // @harness name=counter_ops props=C07,C01,C04,C06,C09 kind=complete
    #[kani::proof]
    #[kani::stub(std::sync::atomic::Atomic::<usize>::fetch_add, a_faa)]
    #[kani::stub(std::sync::atomic::Atomic::<usize>::load, a_load)]
    #[kani::stub(std::sync::atomic::Atomic::<usize>::store, a_store)]
    fn counter_ops() {
        let c = AtomicCounter::new();
        let op: u8 = kani::any();
        kani::assume(op < 4);
        let v: usize = kani::any();
        let s = st();
        s.loc_y = &c as *const AtomicCounter as usize;   // treat as `yielded`-like location without the rely
        s.have_y = true;
        if op == 0 {
            s.loc_y = 0; s.loc_r = &c as *const AtomicCounter as usize;
            let r = c.fetch_and_add(v);
            assert!(s.n == 1 && s.log[0].kind == 1 && s.log[0].arg == v && s.log[0].ret == r, "[C01 C04 C09 ctr-rmw] fetch_and_add(n) is exactly one fetch_add(n) and returns its result");
            assert!(is_rel(s.log[0].ord), "[C07 ctr-rmw-ord] fetch_and_add is a Release (or stronger) RMW: it publishes the holder's use of the wrapped iterator");
        } else if op == 1 {
            s.loc_y = 0; s.loc_r = &c as *const AtomicCounter as usize;
            let r = c.fetch_and_increment();
            assert!(s.n == 1 && s.log[0].kind == 1 && s.log[0].arg == 1 && s.log[0].ret == r, "[C01 C04 C09 ctr-rmw] fetch_and_increment is exactly one fetch_add(1) and returns its result");
            assert!(is_rel(s.log[0].ord), "[C07 ctr-rmw-ord] fetch_and_increment is a Release (or stronger) RMW: it publishes the holder's use of the wrapped iterator");
        } else if op == 2 {
            let r = c.current();
            assert!(s.n == 1 && s.log[0].kind == 2 && s.log[0].ret == r, "[C10 C11 ctr-load] current() is exactly one load and returns its result");
            assert!(is_acq(s.log[0].ord), "[C07 ctr-load-ord] current() is an Acquire (or stronger) load: it admits ticket holders to the wrapped iterator");
        } else {
            c.store(v);
            assert!(s.n == 1 && s.log[0].kind == 3 && s.log[0].arg == v, "[C06 ctr-store] store(v) is exactly one store of v");
        }
        kani::cover!(op == 2, "load");
    }

    // @harness name=counter_clone_atomic props=C19,C07 kind=complete
    #[kani::proof]
    #[kani::stub(std::sync::atomic::Atomic::<usize>::fetch_add, a_faa)]
    #[kani::stub(std::sync::atomic::Atomic::<usize>::load, a_load)]
    #[kani::stub(std::sync::atomic::Atomic::<usize>::store, a_store)]
    #[kani::stub(std::sync::atomic::Atomic::<usize>::swap, a_swap)]
    #[kani::stub(std::sync::atomic::Atomic::<usize>::fetch_sub, a_fsub)]
    fn counter_clone_atomic() {
        let c = AtomicCounter::new();
        let mut e = c.clone();
        let s = st();
        kani::cover!(s.n == 1, "one atomic operation");
        assert!(s.n == 1 && s.log[0].kind == 2, "[C19 C07 C01 ctr-clone-atomic] cloning a counter reads it with exactly one atomic load and never writes it (other threads may be pulling from the original)");
        assert!((*e.current.get_mut()) as usize == s.log[0].ret, "[C19 ctr-clone] a cloned counter starts at the value that load returned");
    }

    // @harness name=counter_new_clone props=C19,C04,C01,C02,C16 kind=complete
    #[kani::proof]
    fn counter_new_clone() {
        let c = AtomicCounter::new();
        assert!(c.current() == 0, "[C04 C19 ctr-new] a new counter starts at 0");
        let d = AtomicCounter::default();
        assert!(d.current() == 0, "[C04 C19 ctr-new] a default counter starts at 0");
        let v: usize = kani::any();
        c.store(v);
        assert!(c.current() == v, "[C04 C01 C02 C16 ctr-width] the counter holds every usize value it is given (positions are usize: a narrower counter wraps early)");
        let n: usize = kani::any();
        let f = AtomicCounter::new();
        f.store(v);
        assert!(f.fetch_and_add(n) == v && f.current() == v.wrapping_add(n), "[C04 C01 C02 C16 ctr-width] fetch_and_add returns the previous value and adds in usize arithmetic");
        let e = c.clone();
        kani::cover!(v > 0, "non-zero");
        assert!(e.current() == v && c.current() == v, "[C19 ctr-clone] a cloned counter starts at the original's value and leaves it unchanged");
        let w: usize = kani::any();
        e.store(w);
        assert!(c.current() == v, "[C19 ctr-clone] a cloned counter is independent");
        let p = c.swap(w);
        assert!(p == v && c.current() == w, "[C06 C08 ctr-swap] swap stores the new value and returns the previous one");
    }
}
