// @module src/lib.rs
// Shared by every Kani harness file: included once at the crate root of the scratch copy as `verif_common`.
//   * effect log kept in a `static` UnsafeCell (never `static mut`: Kani 0.68 artifact, DESIGN.md R2),
//   * pure-havoc stubs of the crate's AtomicCounter methods (L0 model: the returned value is unconstrained),
//   * stubs of the std atomics themselves (they see the Ordering argument),
//   * pure oracles (clamp_end, remaining) -- the executable twins of the spec functions in contracts/common_spec.vrs,
//   * drop ledger element type `D`.
#[allow(dead_code, unused_imports)]
pub(crate) mod verif_common {
    use crate::iter::atomic_counter::AtomicCounter;
    use std::cell::UnsafeCell;
    use std::sync::atomic::{AtomicBool, AtomicUsize, Ordering};

    pub const LOGN: usize = 16;
    // kind: 1 = fetch_add, 2 = load, 3 = store, 4 = wrapped Iterator::next, 5 = bool load, 6 = bool store, 7 = fetch_sub, 8 = swap (std-level stubs)
    #[derive(Clone, Copy)]
    pub struct E { pub loc: usize, pub kind: u8, pub arg: usize, pub ret: usize, pub ord: u8 }
    pub const E0: E = E { loc: 0, kind: 0, arg: 0, ret: 0, ord: 0 };
    pub struct St {
        pub n: usize,
        pub log: [E; LOGN],
        pub nowrap: bool,        // no-wrap regime of C01..C05: havoc'd fetch_add results satisfy ret + val <= usize::MAX
        pub lim: usize,
        pub loc_r: usize, pub loc_y: usize, pub loc_c: usize,   // addresses of reserved / yielded / completed (wrapped iterator)
        pub last_y: usize,       // last value this thread observed on `yielded` (rely: nobody else moves it while we hold the ticket)
        pub have_y: bool,
        pub polls: usize, pub max_polls: usize,
        pub ticket: usize, pub have_ticket: bool, pub flag_mode: u8,
        pub nw: usize, pub nl: usize, pub first_w: E, pub last_w: E, pub first_l: E, pub last_l: E,
    }
    pub struct G(pub UnsafeCell<St>);
    unsafe impl Sync for G {}
    pub static ST: G = G(UnsafeCell::new(St {
        n: 0, log: [E0; LOGN], nowrap: false, lim: usize::MAX,
        loc_r: 0, loc_y: 0, loc_c: 0, last_y: 0, have_y: false, polls: 0, max_polls: 2,
        ticket: 0, have_ticket: false, flag_mode: 0,
        nw: 0, nl: 0, first_w: E0, last_w: E0, first_l: E0, last_l: E0,
    }));
    pub fn st() -> &'static mut St { unsafe { &mut *ST.0.get() } }
    pub fn push(e: E) { let s = st(); assert!(s.n < LOGN, "effect log overflow (harness bound)"); s.log[s.n] = e; s.n += 1;
        if e.kind == 1 || e.kind == 3 || e.kind == 7 || e.kind == 8 { if s.nw == 0 { s.first_w = e; } s.last_w = e; s.nw += 1; }
        if e.kind == 2 { if s.nl == 0 { s.first_l = e; } s.last_l = e; s.nl += 1; }
    }
    pub fn oc(o: Ordering) -> u8 { match o { Ordering::Relaxed => 0, Ordering::Release => 1, Ordering::Acquire => 2, Ordering::AcqRel => 3, Ordering::SeqCst => 4, _ => 9 } }
    pub fn is_acq(o: u8) -> bool { o == 2 || o == 3 || o == 4 }
    pub fn is_rel(o: u8) -> bool { o == 1 || o == 3 || o == 4 }

    // number of writes (fetch_add / store) / loads in the log and the first / last of each (kept incrementally: loop-free)
    pub fn n_writes() -> usize { st().nw }
    pub fn n_loads() -> usize { st().nl }
    pub fn first_write() -> E { st().first_w }
    pub fn last_write() -> E { st().last_w }
    pub fn first_load() -> E { st().first_l }
    pub fn last_load() -> E { st().last_l }

    // ---- pure-havoc stubs of the crate's counter (known-size kinds) ----
    pub fn c_faa(a: &AtomicCounter, val: usize) -> usize {
        let r: usize = kani::any();
        if st().nowrap { kani::assume(val <= st().lim && r <= st().lim - val); }
        push(E { loc: a as *const AtomicCounter as usize, kind: 1, arg: val, ret: r, ord: 3 });
        r
    }
    pub fn c_inc(a: &AtomicCounter) -> usize { c_faa(a, 1) }
    pub fn c_cur(a: &AtomicCounter) -> usize { let r: usize = kani::any(); push(E { loc: a as *const AtomicCounter as usize, kind: 2, arg: 0, ret: r, ord: 0 }); r }
    pub fn c_store(a: &AtomicCounter, v: usize) { push(E { loc: a as *const AtomicCounter as usize, kind: 3, arg: v, ret: 0, ord: 4 }); }

    // ---- rely/guarantee counter model (functions that perform several atomic steps: for_each, fold) ----
    // ghost true value `g`; before each own operation the environment (other threads) takes arbitrarily many steps allowed by
    // the rely "others only fetch_add(k >= 0)" (= the guarantee every pull is proved to satisfy), then the operation acts atomically.
    pub const RN: usize = 5;
    pub struct Rg { pub g: usize, pub n: usize, pub b: [usize; RN], pub k: [usize; RN] }
    pub struct RgCell(pub UnsafeCell<Rg>);
    unsafe impl Sync for RgCell {}
    pub static RG: RgCell = RgCell(UnsafeCell::new(Rg { g: 0, n: 0, b: [0; RN], k: [0; RN] }));
    pub fn rg() -> &'static mut Rg { unsafe { &mut *RG.0.get() } }
    pub fn rg_faa(_a: &AtomicCounter, val: usize) -> usize {
        let s = rg();
        let env: usize = kani::any();
        kani::assume(env <= usize::MAX - s.g && val <= usize::MAX - s.g - env);   // no-wrap regime
        s.g += env;
        let r = s.g;
        s.g += val;
        assert!(s.n < RN, "reservation log overflow (harness bound)");
        s.b[s.n] = r; s.k[s.n] = val; s.n += 1;
        r
    }
    pub fn rg_inc(a: &AtomicCounter) -> usize { rg_faa(a, 1) }
    // a load of the counter: the environment may have advanced it before
    pub fn rg_cur(_a: &AtomicCounter) -> usize {
        let s = rg();
        let env: usize = kani::any();
        kani::assume(env <= usize::MAX - s.g);
        s.g += env;
        s.g
    }
    // was position p reserved by one of this call's own pulls?
    pub fn rg_own(p: usize) -> bool { let s = rg(); let mut i = 0; let mut own = false; while i < RN { if i < s.n && s.b[i] <= p && p - s.b[i] < s.k[i] { own = true; } i += 1; } own }
    pub fn rg_last_ret() -> usize { let s = rg(); if s.n == 0 { 0 } else { s.b[s.n - 1] } }

    // ---- swap on the crate's counter (known-size consuming kinds: skip_to_end) ----
    pub fn c_swap(a: &AtomicCounter, v: usize) -> usize { let r: usize = kani::any(); push(E { loc: a as *const AtomicCounter as usize, kind: 3, arg: v, ret: r, ord: 4 }); r }

    // ---- stubs of the std atomics themselves (wrapped-iterator protocol: three locations, orderings visible) ----
    // environment model: `reserved` is pure havoc (no-wrap regime); `yielded` is havoc on loads, and -- rely, discharged by the
    // protocol lemma -- nobody else moves it between the load that admitted this thread and this thread's publishing fetch_add;
    // `completed` is havoc, or pinned by the harness (flag_mode 1 = already set, 2 = never set by others).  Fruitless polls of the
    // waiting loop are bounded by max_polls (bounded stand-in).
    pub fn locid(a: usize) -> u8 { let s = st(); if a == s.loc_r { 1 } else if a == s.loc_y { 2 } else if a == s.loc_c { 3 } else { 0 } }
    pub fn a_faa(a: &AtomicUsize, val: usize, o: Ordering) -> usize {
        let r: usize = kani::any();
        let l = locid(a as *const AtomicUsize as usize);
        if l == 1 { kani::assume(r <= usize::MAX - val); st().ticket = r; st().have_ticket = true; }
        if l == 2 { kani::assume(st().have_y && r == st().last_y); }
        push(E { loc: l as usize, kind: 1, arg: val, ret: r, ord: oc(o) });
        r
    }
    pub fn a_load(a: &AtomicUsize, o: Ordering) -> usize {
        let r: usize = kani::any();
        let l = locid(a as *const AtomicUsize as usize);
        if l == 2 {
            let s = st();
            s.polls += 1;
            if s.polls > s.max_polls && s.have_ticket { kani::assume(r >= s.ticket); }
            s.last_y = r; s.have_y = true;
        }
        push(E { loc: l as usize, kind: 2, arg: 0, ret: r, ord: oc(o) });
        r
    }
    // any other RMW on a counter is logged as kind 7 (no contract clause allows it)
    pub fn a_swap(a: &AtomicUsize, v: usize, o: Ordering) -> usize { let r: usize = kani::any(); push(E { loc: locid(a as *const AtomicUsize as usize) as usize, kind: 8, arg: v, ret: r, ord: oc(o) }); r }
    pub fn a_fsub(a: &AtomicUsize, v: usize, o: Ordering) -> usize { let r: usize = kani::any(); push(E { loc: locid(a as *const AtomicUsize as usize) as usize, kind: 7, arg: v, ret: r, ord: oc(o) }); r }
    pub fn a_store(a: &AtomicUsize, v: usize, o: Ordering) { push(E { loc: locid(a as *const AtomicUsize as usize) as usize, kind: 3, arg: v, ret: 0, ord: oc(o) }); }
    pub fn b_load(_a: &AtomicBool, o: Ordering) -> bool {
        let mut r: bool = kani::any();
        let s = st();
        if s.flag_mode == 1 { r = true; }
        if s.flag_mode == 2 { r = false; }
        push(E { loc: 3, kind: 5, arg: 0, ret: r as usize, ord: oc(o) });
        r
    }
    pub fn b_store(_a: &AtomicBool, v: bool, o: Ordering) { push(E { loc: 3, kind: 6, arg: v as usize, ret: 0, ord: oc(o) }); }
    // any read-modify-write on the flag: a (havoc'd) load followed by the store of the resulting value
    pub fn b_swap(a: &AtomicBool, v: bool, o: Ordering) -> bool { let r = b_load(a, o); b_store(a, v, o); r }
    pub fn b_for(a: &AtomicBool, v: bool, o: Ordering) -> bool { let r = b_load(a, o); b_store(a, r || v, o); r }
    pub fn b_fand(a: &AtomicBool, v: bool, o: Ordering) -> bool { let r = b_load(a, o); b_store(a, r && v, o); r }

    // ---- std-level view of a known-size operation: which atomic operations did it perform on its counter? ----
    // class: 0 = pull reserving n positions, 1 = query (try_get_len / has_more / into_seq_iter), 2 = skip_to_end
    pub fn chk_std_ops(class: u8, n: usize, len: usize) {
        let s = st();
        let mut fa = 0; let mut other_rmw = 0; let mut stores = 0; let mut ok_arg = true; let mut ok_skip = true;
        let mut i = 0;
        while i < LOGN {
            if i < s.n {
                let e = s.log[i];
                if e.kind == 1 { fa += 1; if e.arg != n { ok_arg = false; } }
                if e.kind == 7 { other_rmw += 1; }
                if e.kind == 3 || e.kind == 8 { stores += 1; if e.arg < len { ok_skip = false; } }
            }
            i += 1;
        }
        if class == 0 {
            assert!(fa == 1 && ok_arg, "[C01 C04 C05 C09 std-one-rmw] a pull performs exactly one fetch_add(n) on its counter");
            assert!(other_rmw == 0 && stores == 0, "[C01 C04 C05 C06 C10 C11 std-no-other-write] a pull performs no other write (store / swap / fetch_sub) on its counter");
        } else if class == 1 {
            assert!(fa == 0 && other_rmw == 0 && stores == 0, "[C11 C10 C01 std-query-readonly] a length query / conversion never writes the counter");
        } else {
            assert!(stores == 1 && ok_skip, "[C05 C06 C11 std-skip-write] skip_to_end performs exactly one write of a value at or past the end");
            assert!(fa == 0 && other_rmw == 0, "[C05 C06 C11 C01 std-skip-no-rmw] skip_to_end performs no fetch_add / fetch_sub");
        }
    }

    // the value the (last) load of the counter returned
    pub fn last_load_ret() -> usize { st().last_l.ret }

    // ---- pure oracles ----
    pub fn clamp_end(b: usize, n: usize, len: usize) -> usize { if b >= len { b } else if n <= len - b { b + n } else { len } }
    pub fn remaining(c: usize, len: usize) -> usize { if c < len { len - c } else { 0 } }

    // ---- documented safety preconditions of std operations the crate calls, written as a stub contract (C17) ----
    // Vec::from_raw_parts: `length <= capacity`, and `capacity` must be the capacity the pointer was allocated with
    // (https://doc.rust-lang.org/std/vec/struct.Vec.html#method.from_raw_parts).  The second half cannot be observed from a
    // pointer alone; a zero capacity for a non-empty, non-ZST range can never be the allocation's capacity.
    pub unsafe fn s_from_raw_parts<T>(ptr: *mut T, length: usize, capacity: usize) -> Vec<T> {
        assert!(length <= capacity, "[C17 std-from-raw-parts] Vec::from_raw_parts requires length <= capacity");
        Vec::from_raw_parts_in(ptr, length, capacity, std::alloc::Global)
    }

    // std::thread::panicking(): a chunk, a buffered iterator or the iterator itself may be dropped while the consumer's thread unwinds
    // (Kani itself never unwinds); what the machinery destroys must not depend on it
    pub fn any_panicking() -> bool { kani::any() }

    // ---- drop ledger ----
    pub const LN: usize = 6;
    pub struct Ledger(pub UnsafeCell<[u8; LN]>);
    unsafe impl Sync for Ledger {}
    pub static DROPS: Ledger = Ledger(UnsafeCell::new([0; LN]));
    pub fn drops() -> &'static mut [u8; LN] { unsafe { &mut *DROPS.0.get() } }
    pub struct D(pub usize);
    impl Drop for D { fn drop(&mut self) { let d = drops(); if self.0 < LN { d[self.0] += 1; } } }
}
