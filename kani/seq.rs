// @module src/iter/con_iter.rs
// Sequential corollary (C04 last sentence, C05, C06, C11) on the real code with the REAL atomics: any single-threaded sequence of
// three symbolic operations behaves like one sequential cursor over the source.  Bounded: source length <= 3, three operations;
// chunk sizes over the full usize domain.  `*_nowrap` variants run in the no-wrap regime the properties state; `*_fulldomain`
// variants drop it (C16: chunk sizes up to usize::MAX "each followed by further pulls").
mod vk_seq {
    use crate::{ConIterOfSlice, ConIterOfRange, ConcurrentIter, HasMore};

    const N: usize = 3;

    // chk!(wrapped, cond, msg): once the cumulative requested count has exceeded usize::MAX (only reachable in the *_fulldomain
    // harnesses) a failure is reported under the separate obligation [after-counter-wrap] (known finding W), so that any other
    // failure of the same clause is still reported under its own name
    macro_rules! chk {
        ($c:expr, $cond:expr, $msg:literal) => {
            if $c.over { assert!($cond, "[C16 after-counter-wrap] behaves like a sequential cursor also after the cumulative requested count exceeded usize::MAX"); }
            else { assert!($cond, $msg); }
        };
    }

    // one step of the sequential cursor model; returns (delivered begin, delivered end) of a pull
    // the model cursor is the mathematical cumulative request count: a usize plus an "exceeded usize::MAX" flag
    #[derive(Clone, Copy)]
    struct Cur { v: usize, over: bool }
    impl Cur {
        fn below(&self, len: usize) -> bool { !self.over && self.v < len }
        fn add(&mut self, n: usize) { match self.v.checked_add(n) { Some(x) => self.v = x, None => { self.over = true; self.v = usize::MAX; } } }
    }
    fn model_pull(c: &mut Cur, n: usize, len: usize) -> (usize, usize) {
        let b = *c;
        c.add(n);
        if b.below(len) { let b = b.v; (b, if n < len - b { b + n } else { len }) } else { (len, len) }
    }

    fn run_slice(nowrap: bool) {
        let data: [u8; N] = kani::any();
        let len: usize = kani::any();
        kani::assume(len <= N);
        let slice = &data[..len];
        let it = ConIterOfSlice::new(slice);
        let mut c = Cur { v: 0, over: false };
        let mut last_delivered: Option<usize> = None;
        let mut ended = false;
        let mut step = 0;
        while step < 3 {
            let op: u8 = kani::any();
            kani::assume(op < 5);
            if op == 0 {
                let (b, e) = model_pull(&mut c, 1, len);
                if nowrap { kani::assume(!c.over); }
                let r = it.next_id_and_value();
                if b < e {
                    chk!(c, !ended, "[C05 C06 C16 seq-end-permanent] no element appears again after a pull reported the end");
                    match r { Some(x) => { chk!(c, x.idx == b && std::ptr::eq(x.value, &slice[b]), "[C04 C02 C16 seq-cursor] a single pull yields what the sequential iterator would yield next"); }
                              None => assert!(false, "[C04 C01 C16 seq-none-lost] a pull delivers the next element while elements remain") }
                    if let Some(p) = last_delivered { chk!(c, b > p, "[C04 seq-increasing] positions are delivered in strictly increasing order"); }
                    last_delivered = Some(b);
                } else { chk!(c, r.is_none(), "[C04 C05 C06 C16 seq-end] a pull past the end reports the end"); ended = true; }
            } else if op == 1 || op == 2 {
                let n: usize = kani::any();
                kani::assume(n >= 1);
                let (b, e) = model_pull(&mut c, n, len);
                if nowrap { kani::assume(!c.over); }
                let mut buf = it.buffered_iter(n);
                let r = if op == 1 { it.next_chunk(n).map(|ch| (ch.begin_idx, ch.values.len())) } else { buf.next().map(|ch| (ch.begin_idx, ch.values.len())) };
                if b < e {
                    chk!(c, !ended, "[C05 C06 C16 seq-end-permanent] no element appears again after a pull reported the end");
                    chk!(c, r == Some((b, e - b)), "[C04 C03 C16 seq-cursor] a chunk pull yields the next run of the sequential iterator");
                    if let Some(p) = last_delivered { chk!(c, b > p, "[C04 seq-increasing] positions are delivered in strictly increasing order"); }
                    last_delivered = Some(e - 1);
                } else { chk!(c, r.is_none(), "[C04 C05 C06 C16 seq-end] a pull past the end reports the end"); ended = true; }
            } else if op == 3 {
                let rem = if c.below(len) { len - c.v } else { 0 };
                chk!(c, it.try_get_len() == Some(rem), "[C11 C04 C06 seq-len] try_get_len equals the number of elements later pulls will deliver");
                chk!(c, it.has_more() == if rem == 0 { HasMore::No } else { HasMore::Yes(rem) }, "[C11 seq-more] has_more is Yes(n) exactly in that situation, No otherwise");
            } else {
                it.skip_to_end();
                if c.below(len) { c.v = len; }
                chk!(c, it.has_more() == HasMore::No, "[C06 C11 seq-skip] has_more is No after skip_to_end");
            }
            step += 1;
        }
        kani::cover!(ended && last_delivered == Some(2), "ran to the end of a full slice");
        // into_seq_iter: exactly the undelivered remainder, in order
        let k = if c.below(len) { c.v } else { len };
        let mut s = it.into_seq_iter();
        let mut j = k;
        while j < N + 1 {
            let x = s.next();
            if j < len { chk!(c, x.is_some() && std::ptr::eq(x.unwrap(), &slice[j]), "[C10 C04 seq-remainder] into_seq_iter yields exactly the undelivered remainder, in source order"); }
            else { chk!(c, x.is_none(), "[C10 seq-remainder] into_seq_iter yields nothing but the undelivered remainder"); }
            j += 1;
        }
    }

    // @harness name=seq_slice_nowrap group=default,nodebug props_nodebug=C17 props=C04,C01,C02,C03,C05,C06,C10,C11,C17 kind=bounded bound="slice length <= 3; three symbolic operations (next, next_chunk(n), buffered next(n), try_get_len/has_more, skip_to_end) then into_seq_iter; n over the full usize domain with cumulative requests <= usize::MAX"
    #[kani::proof]
    #[kani::unwind(6)]
    fn seq_slice_nowrap() { run_slice(true); }

    // @harness name=seq_slice_fulldomain props=C16 kind=bounded bound="slice length <= 3; three symbolic operations; n over the full usize domain, no no-wrap assumption"
    #[kani::proof]
    #[kani::unwind(6)]
    fn seq_slice_fulldomain() { run_slice(false); }

    fn run_range(nowrap: bool) {
        let s0: usize = kani::any();
        let len: usize = kani::any();
        kani::assume(len <= N && s0 <= usize::MAX - len);
        let it = ConIterOfRange::new(s0..s0 + len);
        let mut c = Cur { v: 0, over: false };
        let mut ended = false;
        let mut step = 0;
        while step < 3 {
            let op: u8 = kani::any();
            kani::assume(op < 4);
            if op == 3 {
                it.skip_to_end();
                if c.below(len) { c.v = len; }
                ended = true;
                assert!(it.has_more() == HasMore::No, "[C06 C11 seq-skip] has_more is No after skip_to_end");
            } else if op == 0 {
                let (b, e) = model_pull(&mut c, 1, len);
                if nowrap { kani::assume(!c.over); }
                let r = it.next_id_and_value().map(|x| (x.idx, x.value));
                if b < e { chk!(c, !ended, "[C05 C06 C16 seq-end-permanent] no element appears again after a pull reported the end"); chk!(c, r == Some((b, s0 + b)), "[C04 C02 C16 seq-cursor] a single pull yields what the sequential iterator would yield next"); }
                else { chk!(c, r.is_none(), "[C04 C05 C06 C16 seq-end] a pull past the end reports the end"); ended = true; }
            } else if op == 1 {
                let n: usize = kani::any();
                kani::assume(n >= 1);
                let (b, e) = model_pull(&mut c, n, len);
                if nowrap { kani::assume(!c.over); }
                let r = it.next_chunk(n).map(|mut ch| (ch.begin_idx, ch.values.len(), ch.values.next()));
                if b < e { chk!(c, !ended, "[C05 C06 C16 seq-end-permanent] no element appears again after a pull reported the end"); chk!(c, r == Some((b, e - b, Some(s0 + b))), "[C04 C03 C16 seq-cursor] a chunk pull yields the next run of the sequential iterator"); }
                else { chk!(c, r.is_none(), "[C04 C05 C06 C16 seq-end] a pull past the end reports the end"); ended = true; }
            } else {
                let rem = if c.below(len) { len - c.v } else { 0 };
                chk!(c, it.try_get_len() == Some(rem), "[C11 C04 C06 seq-len] try_get_len equals the number of elements later pulls will deliver");
            }
            step += 1;
        }
        kani::cover!(ended, "ran past the end");
        let k = if c.below(len) { c.v } else { len };
        let r = it.into_seq_iter();
        if k < len { chk!(c, r.start == s0 + k && r.end == s0 + len, "[C10 C04 seq-remainder] into_seq_iter yields exactly the undelivered remainder, in source order"); }
        else { chk!(c, r.start >= r.end, "[C10 seq-remainder] into_seq_iter yields nothing but the undelivered remainder"); }
    }

    // @harness name=seq_range_nowrap group=default,nodebug props_nodebug=C17 props=C04,C01,C02,C03,C05,C06,C10,C11,C17 kind=bounded bound="range length <= 3, any start; three symbolic operations (next, next_chunk(n), try_get_len, skip_to_end) then into_seq_iter; cumulative requests <= usize::MAX"
    #[kani::proof]
    #[kani::unwind(5)]
    fn seq_range_nowrap() { run_range(true); }

    // @harness name=seq_range_fulldomain props=C16 kind=bounded bound="range length <= 3, any start; three symbolic operations; no no-wrap assumption"
    #[kani::proof]
    #[kani::unwind(5)]
    fn seq_range_fulldomain() { run_range(false); }

    // constructors: every way of creating a concurrent iterator starts at position 0 over exactly the given source
    // @harness name=constructors_into props=C19,C01,C02,C04 kind=bounded bound="sources of length 3 (symbolic contents); range of any start with length <= 3"
    #[kani::proof]
    #[kani::unwind(6)]
    fn constructors_into() {
        use crate::{ConcurrentIterable, IntoConcurrentIter, IterIntoConcurrentIter};
        let a: [u8; 3] = kani::any();
        let which: u8 = kani::any();
        kani::assume(which < 5);
        kani::cover!(which == 4, "wrapped iterator");
        if which == 0 {
            let it = IntoConcurrentIter::into_con_iter(vec![a[0], a[1], a[2]]);
            assert!(it.try_get_len() == Some(3), "[C19 C01 ctor-len] a new iterator has the whole source ahead of it");
            let x = it.next_id_and_value().map(|x| (x.idx, x.value));
            assert!(x == Some((0, a[0])), "[C19 C01 C02 ctor-first] the first pull delivers position 0");
            let r: Vec<u8> = it.into_seq_iter().collect();
            assert!(r.len() == 2 && r[0] == a[1] && r[1] == a[2], "[C04 C01 ctor-order] ... followed by the rest of the source in order");
        } else if which == 1 {
            let it = IntoConcurrentIter::into_con_iter(a);
            assert!(it.try_get_len() == Some(3), "[C19 C01 ctor-len] a new iterator has the whole source ahead of it");
            let x = it.next_id_and_value().map(|x| (x.idx, x.value));
            assert!(x == Some((0, a[0])), "[C19 C01 C02 ctor-first] the first pull delivers position 0");
            let r: Vec<u8> = it.into_seq_iter().collect();
            assert!(r.len() == 2 && r[0] == a[1] && r[1] == a[2], "[C04 C01 ctor-order] ... followed by the rest of the source in order");
        } else if which == 2 {
            let s0: usize = kani::any();
            let len: usize = kani::any();
            kani::assume(len <= 3 && s0 <= usize::MAX - len);
            let r = s0..s0 + len;
            let it = r.con_iter();
            let it2 = IntoConcurrentIter::into_con_iter(s0..s0 + len);
            assert!(it.try_get_len() == Some(len) && it2.try_get_len() == Some(len), "[C19 C01 ctor-len] a new iterator has the whole source ahead of it");
            let x = it.next_id_and_value().map(|x| (x.idx, x.value));
            assert!(x == if len > 0 { Some((0, s0)) } else { None }, "[C19 C01 C02 ctor-first] the first pull delivers position 0");
            assert!(r.start == s0 && r.end == s0 + len && it2.try_get_len() == Some(len), "[C19 ctor-unmodified] con_iter leaves the range and other iterators over it untouched");
        } else if which == 3 {
            let v = vec![a[0], a[1], a[2]];
            let it = v.con_iter();
            let x = it.next_id_and_value().map(|x| (x.idx, *x.value));
            assert!(x == Some((0, a[0])) && it.try_get_len() == Some(2), "[C19 C01 C02 ctor-first] the first pull delivers position 0");
        } else {
            let it = IterIntoConcurrentIter::into_con_iter(a.iter().copied());
            assert!(it.try_get_len() == Some(3), "[C19 C01 C11 ctor-len] a new iterator over an exact-size source has the whole source ahead of it");
            let x = it.next_id_and_value().map(|x| (x.idx, x.value));
            assert!(x == Some((0, a[0])), "[C19 C01 C02 ctor-first] the first pull delivers position 0");
            let mut rest = it.into_seq_iter();
            assert!(rest.next() == Some(a[1]) && rest.next() == Some(a[2]) && rest.next().is_none(), "[C10 C04 ctor-order] into_seq_iter of a wrapped iterator yields exactly the undelivered remainder, in order");
        }
    }
}
