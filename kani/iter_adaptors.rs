// @module src/iter/implementors/iter.rs
// cloned() / copied() over a wrapped iterator of references, seen from inside the wrapped iterator's module (its protocol state --
// tickets handed out, tickets published, end flag -- is private): C13 "forwarded, not re-implemented" for buffered pullers that keep
// state between calls.
mod vk_iter_adaptors {
    use super::*;
    use crate::{ConcurrentIter, IntoCloned, IntoCopied};

    const N: usize = 3;
    #[derive(Clone, Copy, PartialEq, Eq)]
    struct V(u8);
    fn data() -> [V; N] { [V(kani::any()), V(kani::any()), V(kani::any())] }

    // state kept by the adaptor's buffered puller between calls must not change what it forwards: three consecutive pulls on ONE
    // buffered iterator (full chunk, short last chunk, end) and then a pull by somebody else; after every step the adaptor and the
    // underlying iterator agree on the result and on the state of the underlying protocol (tickets handed out, tickets published, end flag)
    // @harness name=cloned_iter_buffered_seq props=C13,C09,C01,C05 kind=bounded bound="wrapped iterator of references of length 3; three consecutive buffered(2) pulls on one buffered iterator, then one single pull (real atomics, sequential)"
    #[kani::proof]
    #[kani::unwind(6)]
    fn cloned_iter_buffered_seq() {
        use std::sync::atomic::Ordering;
        let d = data();
        let x = ConIterOfIter::new(d.iter());
        let y = ConIterOfIter::new(d.iter()).cloned();
        {
            let mut bx = x.buffered_iter(2);
            let mut by = y.buffered_iter(2);
            let mut step = 0;
            while step < 3 {
                match (bx.next(), by.next()) {
                    (Some(mut a), Some(mut b)) => {
                        assert!(a.begin_idx == b.begin_idx && a.values.len() == b.values.len(), "[C13 C01 same-begin] same chunk begin index and boundaries as the underlying iterator");
                        let mut k = 0;
                        while k < 2 { match (a.values.next(), b.values.next()) { (Some(p), Some(q)) => assert!(*p == q, "[C13 clone-of] chunk elements are clones of the underlying chunk's elements"), (None, None) => {}, _ => assert!(false, "[C13 same-chunk-len] same number of chunk elements") } k += 1; }
                    }
                    (None, None) => {}
                    _ => assert!(false, "[C13 C05 same-end] the adaptor reports the end exactly when the underlying iterator does"),
                }
                let u = y.underlying_iter();
                assert!(x.reserved_counter.current() == u.reserved_counter.current(), "[C13 C09 same-protocol-state] every pull through the adaptor takes a ticket exactly when the underlying pull does");
                assert!(x.yielded_counter.current() == u.yielded_counter.current(), "[C13 C09 same-protocol-state] every pull through the adaptor publishes its ticket exactly when the underlying pull does (later tickets wait for it)");
                assert!(x.completed.load(Ordering::SeqCst) == u.completed.load(Ordering::SeqCst), "[C13 C05 same-protocol-state] the end is recorded through the adaptor exactly when the underlying pull records it");
                step += 1;
            }
        }
        kani::cover!(true, "three pulls done");
        assert!(x.next().is_none() && y.next().is_none(), "[C13 C09 C05 same-end] a later pull by anybody returns (and reports the end)");
    }

    // state kept by the adaptor's buffered puller between calls must not change what it forwards: three consecutive pulls on ONE
    // buffered iterator (full chunk, short last chunk, end) and then a pull by somebody else; after every step the adaptor and the
    // underlying iterator agree on the result and on the state of the underlying protocol (tickets handed out, tickets published, end flag)
    // @harness name=copied_iter_buffered_seq props=C13,C09,C01,C05 kind=bounded bound="wrapped iterator of references of length 3; three consecutive buffered(2) pulls on one buffered iterator, then one single pull (real atomics, sequential)"
    #[kani::proof]
    #[kani::unwind(6)]
    fn copied_iter_buffered_seq() {
        use std::sync::atomic::Ordering;
        let d = data();
        let x = ConIterOfIter::new(d.iter());
        let y = ConIterOfIter::new(d.iter()).copied();
        {
            let mut bx = x.buffered_iter(2);
            let mut by = y.buffered_iter(2);
            let mut step = 0;
            while step < 3 {
                match (bx.next(), by.next()) {
                    (Some(mut a), Some(mut b)) => {
                        assert!(a.begin_idx == b.begin_idx && a.values.len() == b.values.len(), "[C13 C01 same-begin] same chunk begin index and boundaries as the underlying iterator");
                        let mut k = 0;
                        while k < 2 { match (a.values.next(), b.values.next()) { (Some(p), Some(q)) => assert!(*p == q, "[C13 clone-of] chunk elements are copies of the underlying chunk's elements"), (None, None) => {}, _ => assert!(false, "[C13 same-chunk-len] same number of chunk elements") } k += 1; }
                    }
                    (None, None) => {}
                    _ => assert!(false, "[C13 C05 same-end] the adaptor reports the end exactly when the underlying iterator does"),
                }
                let u = y.underlying_iter();
                assert!(x.reserved_counter.current() == u.reserved_counter.current(), "[C13 C09 same-protocol-state] every pull through the adaptor takes a ticket exactly when the underlying pull does");
                assert!(x.yielded_counter.current() == u.yielded_counter.current(), "[C13 C09 same-protocol-state] every pull through the adaptor publishes its ticket exactly when the underlying pull does (later tickets wait for it)");
                assert!(x.completed.load(Ordering::SeqCst) == u.completed.load(Ordering::SeqCst), "[C13 C05 same-protocol-state] the end is recorded through the adaptor exactly when the underlying pull records it");
                step += 1;
            }
        }
        kani::cover!(true, "three pulls done");
        assert!(x.next().is_none() && y.next().is_none(), "[C13 C09 C05 same-end] a later pull by anybody returns (and reports the end)");
    }
}
