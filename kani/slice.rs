// @module src/iter/implementors/slice.rs
// ConIterOfSlice on the compiled crate: address identity of delivered references (C19, C02), cross-check of the Verus L1
// clauses with havoc'd counters, Clone / constructors.  Bounded in the slice length (4), complete in counter values and chunk size.
mod vk_slice {
    use super::*;
    use crate::verif_common::*;
    use crate::{ConcurrentIterable, IntoConcurrentIter};

    const N: usize = 4;

    // @harness name=slice_next_ptr props=C19,C02,C01,C05,C06 kind=bounded bound="slice length <= 4; counter value over the full usize domain"
    #[kani::proof]
    #[kani::stub(crate::iter::atomic_counter::AtomicCounter::fetch_and_add, c_faa)]
    #[kani::stub(crate::iter::atomic_counter::AtomicCounter::fetch_and_increment, c_inc)]
    #[kani::stub(crate::iter::atomic_counter::AtomicCounter::current, c_cur)]
    #[kani::stub(crate::iter::atomic_counter::AtomicCounter::store, c_store)]
    fn slice_next_ptr() {
        let data: [u8; N] = kani::any();
        let len: usize = kani::any();
        kani::assume(len <= N);
        let slice = &data[..len];
        let it = ConIterOfSlice::new(slice);
        let r = it.next_id_and_value();
        assert!(n_writes() == 1 && first_write().kind == 1 && first_write().arg == 1, "[C01 C04 C09 ops] next performs exactly one fetch_add(1)");
        assert!(first_write().loc == it.counter() as *const AtomicCounter as usize, "[C19 own-counter] the only effect is on the iterator's own counter");
        let b = first_write().ret;
        kani::cover!(r.is_some(), "delivering");
        match r {
            Some(nx) => {
                assert!(b < len && nx.idx == b, "[C01 C02 C05 C06 idx] next delivers the reserved position");
                assert!(std::ptr::eq(nx.value, &slice[b]), "[C19 C02 same-address] the delivered reference points at the original element");
            }
            None => assert!(b >= len, "[C01 C05 C06 none-iff] None only past the end"),
        }
        assert!(slice.len() == len, "[C19 unmodified] the collection is left as it was");
    }

    // @harness name=slice_chunk_ptr props=C19,C02,C03,C01 kind=bounded bound="slice length <= 4; counter value and chunk size over the full usize domain; element offset symbolic"
    #[kani::proof]
    #[kani::stub(crate::iter::atomic_counter::AtomicCounter::fetch_and_add, c_faa)]
    #[kani::stub(crate::iter::atomic_counter::AtomicCounter::fetch_and_increment, c_inc)]
    #[kani::stub(crate::iter::atomic_counter::AtomicCounter::current, c_cur)]
    #[kani::stub(crate::iter::atomic_counter::AtomicCounter::store, c_store)]
    fn slice_chunk_ptr() {
        let data: [u8; N] = kani::any();
        let len: usize = kani::any();
        kani::assume(len <= N);
        let slice = &data[..len];
        let it = ConIterOfSlice::new(slice);
        let n: usize = kani::any();
        let buffered: bool = kani::any();
        kani::assume(!buffered || n > 0);
        let mut buf = it.buffered_iter(if buffered { n } else { 1 });
        let r = if buffered { buf.next().map(|c| (c.begin_idx, c.values.len(), { let mut v = c.values; let k: usize = kani::any(); (k, v.nth(k).map(|x| x as *const u8)) })) }
                else { it.next_chunk(n).map(|c| (c.begin_idx, c.values.len(), { let mut v = c.values; let k: usize = kani::any(); (k, v.nth(k).map(|x| x as *const u8)) })) };
        assert!(n_writes() == 1 && first_write().kind == 1 && first_write().arg == n, "[C01 C04 C09 ops] a chunk pull performs exactly one fetch_add(n)");
        let b = first_write().ret;
        let en = clamp_end(b, n, len);
        kani::cover!(r.is_some() && buffered, "buffered chunk");
        kani::cover!(r.is_some() && !buffered && en - b < n, "short one-shot chunk");
        match r {
            Some((begin, l, (k, p))) => {
                assert!(b < en && begin == b, "[C02 C03 begin] chunk begins at the reserved position");
                // (the more specific clause first: a failed assertion ends its path)
                if let Some(q) = p { assert!(b + k < len && q == &slice[b + k] as *const u8, "[C19 C02 C03 same-address] the k-th chunk element points at the original element b + k"); }
                assert!(l == en - b, "[C01 C03 exact-len] chunk length is min(n, len - b)");
                if k < l { assert!(p.is_some(), "[C03 exact-len] the chunk yields every element it announced"); }
                else { assert!(p.is_none(), "[C03 exact-len] the chunk yields exactly the announced number of elements"); }
            }
            None => assert!(b == en, "[C01 C03 C05 C06 none-iff] None only when nothing is left"),
        }
    }

    // @harness name=slice_clone props=C19 kind=bounded bound="slice length <= 4; counter values over the full usize domain (real atomics)"
    #[kani::proof]
    fn slice_clone() {
        let data: [u8; N] = kani::any();
        let it = ConIterOfSlice::new(&data[..]);
        let c0: usize = kani::any();
        it.counter().store(c0);
        let cl = it.clone();
        kani::cover!(c0 < N, "clone in the middle");
        assert!(cl.counter().current() == c0, "[C19 clone-pos] a clone starts at the original's current position");
        assert!(std::ptr::eq(cl.as_slice().as_ptr(), data.as_ptr()) && cl.as_slice().len() == N, "[C19 clone-src] a clone iterates the same collection");
        assert!(!std::ptr::eq(cl.counter(), it.counter()), "[C19 independent] a clone has its own counter");
        let a = cl.next_id_and_value();
        assert!(it.counter().current() == c0, "[C19 independent] pulling from the clone does not move the original");
        if c0 < usize::MAX { let _ = it.next_chunk(2).map(|c| c.begin_idx); assert!(cl.counter().current() == c0 + 1, "[C19 independent] pulling from the original does not move the clone"); }
        if let Some(a) = a { assert!(a.idx == c0 && std::ptr::eq(a.value, &data[c0]), "[C19 C02 same-address] the clone delivers references to the original elements"); }
    }

    // clone_from (by default `*self = source.clone()`): the target becomes a copy of the source -- same collection, same position --
    // whatever it iterated before
    // @harness name=slice_clone_from props=C19 kind=bounded bound="two slices of length <= 4 and <= 2; counter values over the full usize domain (real atomics)"
    #[kani::proof]
    fn slice_clone_from() {
        let data: [u8; N] = kani::any();
        let other: [u8; 2] = kani::any();
        let olen: usize = kani::any();
        kani::assume(olen <= 2);
        let src = ConIterOfSlice::new(&data[..]);
        let c0: usize = kani::any();
        src.counter().store(c0);
        let mut dst = ConIterOfSlice::new(&other[..olen]);
        let d0: usize = kani::any();
        dst.counter().store(d0);
        dst.clone_from(&src);
        kani::cover!(c0 > olen && c0 < N, "source is past the length of the target's old slice");
        assert!(dst.counter().current() == c0, "[C19 clone-pos] clone_from leaves the target at the source's position");
        assert!(std::ptr::eq(dst.as_slice().as_ptr(), data.as_ptr()) && dst.as_slice().len() == N, "[C19 clone-src] clone_from makes the target iterate the source's collection");
        assert!(src.counter().current() == c0 && !std::ptr::eq(dst.counter(), src.counter()), "[C19 independent] clone_from leaves the source untouched and shares nothing with it");
    }

    // cloning through a reference in generic code that knows nothing about the element type: an iterator over a slice is cloneable
    // whatever its elements are (a Clone impl that only exists for `T: Clone` silently turns `it.clone()` into a copy of the REFERENCE
    // here, i.e. an alias that shares the original's counter -- and still compiles)
    fn pull_from_clone<T: Send + Sync>(it: &ConIterOfSlice<T>) -> Option<usize> { let mine = it.clone(); mine.next_id_and_value().map(|x| x.idx) }
    // @harness name=slice_clone_generic props=C19 kind=bounded bound="slice of 3 elements of a type that is neither Clone nor Copy; counter values over the full usize domain (real atomics)"
    #[kani::proof]
    fn slice_clone_generic() {
        struct NC(u8);
        let data = [NC(kani::any()), NC(kani::any()), NC(kani::any())];
        let it = ConIterOfSlice::new(&data[..]);
        let c0: usize = kani::any();
        kani::assume(c0 < usize::MAX);
        it.counter().store(c0);
        let r = pull_from_clone(&it);
        kani::cover!(c0 < 3, "clone in the middle");
        assert!(r == if c0 < 3 { Some(c0) } else { None }, "[C19 clone-pos] the clone starts at the original's position");
        assert!(it.counter().current() == c0, "[C19 independent] pulling from a clone does not move the original, whatever the element type and however the clone was taken");
    }

    // the same operations seen at the level of the std atomics (every atomic operation on the counter is logged, whatever
    // AtomicCounter method -- existing or new -- performed it)
    // @harness name=slice_ops_std props=C01,C02,C04,C05,C06,C09,C10,C11,C17,C16 kind=bounded bound="length <= 3; chunk size and every value read symbolic over the full usize domain"
    #[kani::proof]
    #[kani::unwind(18)]
    #[kani::stub(std::sync::atomic::Atomic::<usize>::fetch_add, a_faa)]
    #[kani::stub(std::sync::atomic::Atomic::<usize>::fetch_sub, a_fsub)]
    #[kani::stub(std::sync::atomic::Atomic::<usize>::swap, a_swap)]
    #[kani::stub(std::sync::atomic::Atomic::<usize>::load, a_load)]
    #[kani::stub(std::sync::atomic::Atomic::<usize>::store, a_store)]
    fn slice_ops_std() {
        let data: [u8; 3] = kani::any();
        let len: usize = kani::any();
        kani::assume(len <= 3);
        let it = ConIterOfSlice::new(&data[..len]);
        st().loc_r = it.counter() as *const AtomicCounter as usize;
        let op: u8 = kani::any();
        kani::assume(op < 8);
        let n: usize = kani::any();
        kani::cover!(op == 2, "buffered pull");
        kani::cover!(op == 7, "for-loop adaptor");
        kani::cover!(op == 3, "skip");
        if op == 0 { let _ = it.next_id_and_value().map(|x| x.idx); chk_std_ops(0, 1, len); }
        else if op == 1 { let _ = it.next_chunk(n).map(|c| c.begin_idx); chk_std_ops(0, n, len); }
        else if op == 2 { kani::assume(n > 0); { let mut b = it.buffered_iter(n); let _ = b.next().map(|c| c.begin_idx); }; chk_std_ops(0, n, len); }
        else if op == 3 { it.skip_to_end(); chk_std_ops(2, 0, len); }
        else if op == 4 {
            let r = it.try_get_len(); chk_std_ops(1, 0, len);
            assert!(n_loads() == 1 && r == Some(remaining(last_load_ret(), len)), "[C11 C05 C06 std-len] try_get_len is max(len - c, 0) for the counter value c it read, whatever that value is");
            let h = it.has_more(); let k = remaining(last_load_ret(), len);
            assert!(h == if k == 0 { crate::HasMore::No } else { crate::HasMore::Yes(k) }, "[C11 C05 C06 std-more] has_more is No iff nothing remains, else Yes(remaining)");
        }
        else if op == 5 { let s = it.into_seq_iter(); chk_std_ops(1, 0, len); std::mem::forget(s); }
        // the `for`-loop adaptors: each item they yield is one single pull of the shared iterator, made when it is asked for
        else if op == 6 {
            let r = it.values().next(); chk_std_ops(0, 1, len);
            let b = first_write().ret;
            match r { Some(v) => assert!(b < len && std::ptr::eq(v, &data[b]), "[C01 C02 C04 std-wrapper-values] values().next() yields the element at the position its own fetch_add(1) reserved"), None => assert!(b >= len, "[C01 C05 std-wrapper-none] None only when the reserved position is past the end") }
        } else {
            let r = it.ids_and_values().next(); chk_std_ops(0, 1, len);
            let b = first_write().ret;
            match r { Some((i, v)) => assert!(i == b && b < len && std::ptr::eq(v, &data[b]), "[C01 C02 C04 std-wrapper-ids] ids_and_values().next() yields (position, element) of the position its own fetch_add(1) reserved"), None => assert!(b >= len, "[C01 C05 std-wrapper-none] None only when the reserved position is past the end") }
        }
    }

    // the `for`-loop adaptors values() / ids_and_values() driven through Iterator methods other than next()
    // (nth, on which skip / step_by are built): still one source element per yielded item, with its own index
    // @harness name=slice_wrappers_nth props=C02,C01,C05,C06 kind=bounded bound="slice length <= 4; any counter value; nth(k) with k <= 3, then next() (real atomics, sequential)"
    #[kani::proof]
    #[kani::unwind(7)]
    fn slice_wrappers_nth() {
        let data: [u8; N] = kani::any();
        let len: usize = kani::any();
        kani::assume(len <= N);
        let slice = &data[..len];
        let it = ConIterOfSlice::new(slice);
        let c: usize = kani::any();
        kani::assume(c <= usize::MAX - 8);
        it.counter().store(c);
        let k: usize = kani::any();
        kani::assume(k <= 3);
        let which: bool = kani::any();
        // sequentially, nth(k) is the (k+1)-th pull: position c + k
        if which {
            let mut w = it.ids_and_values();
            let r = w.nth(k);
            kani::cover!(r.is_some() && k == 2, "nth(2) delivers");
            match r {
                Some((i, v)) => { assert!(i == c + k && i < len, "[C02 C01 wrapper-nth-idx] ids_and_values().nth(k) reports the index of the element it yields"); assert!(std::ptr::eq(v, &slice[i]), "[C02 wrapper-nth-value] ... and yields the element found at that index"); }
                None => assert!(c + k >= len, "[C01 C05 C06 wrapper-nth-none] None only when the position is past the end"),
            }
            match w.next() { Some((i, v)) => { assert!(i < len && std::ptr::eq(v, &slice[i]), "[C02 wrapper-next-after-nth] the following item still carries its own index"); } None => {} }
        } else {
            let mut w = it.values();
            let r = w.nth(k);
            match r {
                Some(v) => assert!(c + k < len && std::ptr::eq(v, &slice[c + k]), "[C02 C01 wrapper-nth-value] values().nth(k) yields the element at the (k+1)-th next position"),
                None => assert!(c + k >= len, "[C01 C05 C06 wrapper-nth-none] None only when the position is past the end"),
            }
        }
    }
}
