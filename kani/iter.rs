// @module src/iter/implementors/iter.rs
// ConIterOfIter / BufferIter: L1 conformance of the real code to the ticket protocol (DESIGN.md section 4), with the std atomics
// stubbed (pure havoc + the rely of the protocol lemma; Ordering arguments visible).  Bounded: chunk size <= 2, fruitless polls
// of the waiting loop <= 2; the wrapped iterator's position and length, the ticket and every value read are symbolic over the
// full usize domain.
mod vk_iter {
    use super::*;
    use crate::verif_common::*;

    // the wrapped iterator: yields k, k+1, .., len-1; its size hint is truthful or -- adversarially -- arbitrary (size_hint is
    // advisory: which elements are delivered must depend on what next() returns only)
    struct Probe { k: usize, len: usize, hint: (usize, Option<usize>) }
    impl Iterator for Probe {
        type Item = usize;
        fn next(&mut self) -> Option<usize> {
            let r = if self.k < self.len { self.k += 1; Some(self.k - 1) } else { None };
            push(E { loc: 9, kind: 4, arg: 0, ret: match r { Some(x) => x.wrapping_add(1), None => 0 }, ord: 0 });
            r
        }
        // every other use of the wrapped iterator's state is an access to the same non-atomic shared object
        fn size_hint(&self) -> (usize, Option<usize>) { push(E { loc: 9, kind: 9, arg: 0, ret: 0, ord: 0 }); self.hint }
    }

    fn mk() -> (ConIterOfIter<usize, Probe>, usize, usize) {
        let k: usize = kani::any();
        let len: usize = kani::any();
        kani::assume(k <= len && len < usize::MAX);
        let honest: bool = kani::any();
        let hint: (usize, Option<usize>) = if honest { (len - k, Some(len - k)) } else { (kani::any(), kani::any()) };
        (ConIterOfIter::new(Probe { k, len, hint }), k, len)
    }
    fn mk_honest() -> (ConIterOfIter<usize, Probe>, usize, usize) {
        let k: usize = kani::any();
        let len: usize = kani::any();
        kani::assume(k <= len && len < usize::MAX);
        (ConIterOfIter::new(Probe { k, len, hint: (len - k, Some(len - k)) }), k, len)
    }
    // addresses of the three atomics (taken once the iterator has reached its final place)
    fn locs(it: &ConIterOfIter<usize, Probe>) {
        let s = st();
        // the constructor reads the size hint (single-threaded, before the iterator is shared): start the log afresh
        s.n = 0; s.nw = 0; s.nl = 0;
        s.loc_r = &it.reserved_counter as *const AtomicCounter as usize;
        s.loc_y = &it.yielded_counter as *const AtomicCounter as usize;
        s.loc_c = &it.completed as *const AtomicBool as usize;
    }

    // the protocol clauses shared by every pulling operation; n = size of the reservation, single = next() protocol
    // returns (ticket b, admitted, number of items the wrapped iterator produced, whether it reported its end)
    fn chk_protocol(n: usize, buffered: bool, single: bool) -> (usize, bool, usize, bool) {
        let s = st();
        assert!(s.n >= 1 && s.log[0].loc == 1 && s.log[0].kind == 1 && s.log[0].arg == n, "[C01 C04 C09 iter-reserve] a pull starts with exactly one fetch_add(n) on the ticket counter");
        let b = s.log[0].ret;
        let mut admitted = false;      // saw Load{yielded} == b
        let mut published = false;     // FetchAdd{yielded} or FlagStore after admission
        let mut items = 0usize;
        let mut ended = false;
        let mut flag_true_seen = false;
        let mut passed_seen = false;   // saw `yielded` beyond the ticket
        let mut i = 1;
        while i < LOGN {
            if i < s.n {
                let e = s.log[i];
                assert!(!(e.loc == 1 && (e.kind == 1 || e.kind == 3)), "[C01 C04 iter-reserve] no second write to the ticket counter");
                if e.loc == 2 && e.kind == 2 {
                    if e.ret == b && !published {
                        admitted = true;
                        assert!(is_acq(e.ord), "[C07 iter-admit-ord] the load of `yielded` that admits the ticket holder is at least Acquire");
                    }
                }
                if e.loc == 3 && e.kind == 5 && e.ret == 1 { flag_true_seen = true; }
                if e.loc == 2 && e.kind == 2 && e.ret > b { passed_seen = true; }
                if e.loc == 9 {
                    assert!(admitted && !published, "[C07 C01 iter-exclusive] the wrapped iterator is used only between admission (yielded == ticket) and publication");
                }
                if e.loc == 9 && e.kind == 4 {
                    if e.ret != 0 { assert!(!ended, "[C01 iter-fused] no item after the wrapped iterator ended (A6)"); items += 1; } else { ended = true; }
                }
                if e.loc == 2 && e.kind == 1 {
                    assert!(admitted, "[C07 C09 iter-publish-holder] only the admitted ticket holder advances `yielded`");
                    assert!(!published, "[C09 iter-publish-once] `yielded` is advanced once");
                    assert!(e.arg == n, "[C09 C01 C02 C12 iter-publish-whole] the holder advances `yielded` by its whole reservation");
                    assert!(is_rel(e.ord), "[C07 iter-publish-ord] the fetch_add that publishes the critical section is at least Release");
                    published = true;
                }
                if e.loc == 2 && e.kind == 3 { assert!(false, "[C07 C09 iter-no-store-y] `yielded` is only ever advanced with fetch_add"); }
                if e.loc == 3 && e.kind == 6 {
                    assert!(e.arg == 1, "[C05 C06 C11 iter-flag-monotone] `completed` is only ever set, never cleared");
                    if admitted && single { published = true; }
                }
            }
            i += 1;
        }
        if !admitted {
            assert!(flag_true_seen || passed_seen, "[C09 C05 C06 C01 C12 iter-give-up] a pull gives up its reservation only after it observed `completed` or `yielded` beyond its ticket (otherwise later tickets wait for it forever)");
        }
        if admitted && !flag_true_seen {
            assert!(published, "[C09 C12 C01 iter-progress] a ticket holder that returns has advanced `yielded` by its reservation or set `completed`");
        }
        let _ = buffered;
        (b, admitted, items, ended)
    }

    // @harness name=iter_next group=default,nodebug props_nodebug=C17 props=C01,C02,C04,C05,C06,C07,C09,C11,C12 kind=bounded bound="fruitless polls <= 2; ticket, yielded, iterator position over the full usize domain"
    #[kani::proof]
    #[kani::unwind(18)]
    #[kani::stub(std::sync::atomic::Atomic::<usize>::fetch_add, a_faa)]
    #[kani::stub(std::sync::atomic::Atomic::<usize>::load, a_load)]
    #[kani::stub(std::sync::atomic::Atomic::<usize>::store, a_store)]
    #[kani::stub(std::sync::atomic::Atomic::<bool>::load, b_load)]
    #[kani::stub(std::sync::atomic::Atomic::<bool>::store, b_store)]
    #[kani::stub(std::sync::atomic::Atomic::<bool>::swap, b_swap)]
    #[kani::stub(std::sync::atomic::Atomic::<bool>::fetch_or, b_for)]
    #[kani::stub(std::sync::atomic::Atomic::<bool>::fetch_and, b_fand)]
    fn iter_next() {
        let (it, k, len) = mk();
        locs(&it);
        let r = it.next_id_and_value();
        let (b, admitted, items, ended) = chk_protocol(1, false, true);
        kani::cover!(r.is_some(), "delivering");
        kani::cover!(admitted && r.is_none(), "holder finds the source exhausted");
        kani::cover!(!admitted, "not admitted");
        match r {
            Some(nx) => {
                assert!(admitted && items == 1, "[C01 C07 iter-some] an element is returned only by the admitted holder, from exactly one use of the wrapped iterator");
                assert!(nx.idx == b, "[C02 iter-idx] reported index is the ticket");
                assert!(nx.value == k, "[C01 C02 iter-value] the value is the item the wrapped iterator produced");
            }
            None => {
                assert!(items == 0, "[C01 iter-none-lost] no item is taken from the wrapped iterator and then dropped");
                if admitted && st().flag_mode == 2 { assert!(ended, "[C05 C06 C11 iter-none] an admitted holder returns None only when the source ended"); }
            }
        }
        let _ = len;
    }

    // @harness name=iter_chunk group=default,nodebug props_nodebug=C17 props=C01,C02,C03,C04,C05,C06,C07,C09,C11,C16,C12 kind=bounded bound="chunk size <= 2; fruitless polls <= 2; ticket, yielded, iterator position over the full usize domain"
    #[kani::proof]
    #[kani::unwind(18)]
    #[kani::stub(std::sync::atomic::Atomic::<usize>::fetch_add, a_faa)]
    #[kani::stub(std::sync::atomic::Atomic::<usize>::load, a_load)]
    #[kani::stub(std::sync::atomic::Atomic::<usize>::store, a_store)]
    #[kani::stub(std::sync::atomic::Atomic::<bool>::load, b_load)]
    #[kani::stub(std::sync::atomic::Atomic::<bool>::store, b_store)]
    #[kani::stub(std::sync::atomic::Atomic::<bool>::swap, b_swap)]
    #[kani::stub(std::sync::atomic::Atomic::<bool>::fetch_or, b_for)]
    #[kani::stub(std::sync::atomic::Atomic::<bool>::fetch_and, b_fand)]
    fn iter_chunk() {
        let (it, k, len) = mk();
        locs(&it);
        let n: usize = kani::any();
        kani::assume(n >= 1 && n <= 2);
        let r = it.next_chunk(n);
        let (b, admitted, items, ended) = chk_protocol(n, false, false);
        kani::cover!(r.is_some() && n == 2 && items == 1, "short chunk at the end of the source");
        kani::cover!(r.is_some() && items == 2, "full chunk");
        kani::cover!(admitted && r.is_none(), "holder finds the source exhausted");
        match r {
            Some(mut c) => {
                assert!(admitted, "[C01 C07 iter-some] a chunk is returned only by the admitted holder");
                assert!(c.begin_idx == b, "[C02 C03 iter-begin] begin index is the ticket");
                let l = c.values.len();
                // (contents first: a failed assertion ends its path)
                let mut j = 0;
                while j < 2 { if j < l { let x = c.values.next(); assert!(x.is_none() || x == Some(k + j), "[C01 C02 C03 C04 iter-contents] items are delivered in source order"); assert!(x.is_some(), "[C03 iter-exact-len] the chunk yields every item it announced"); } j += 1; }
                assert!(l == items && l >= 1 && l <= n, "[C01 C03 iter-exact-len] the chunk holds exactly the items taken from the wrapped iterator, 1 <= len <= n");
                assert!(l == n || ended, "[C01 C02 C03 iter-short-only-at-end] a chunk is shorter than n only when the source ended");
                assert!(l > 2 || c.values.next().is_none(), "[C03 iter-exact-len] the chunk yields exactly the announced number of items");
            }
            None => {
                assert!(items == 0, "[C01 iter-none-lost] no item is taken from the wrapped iterator and then dropped");
                if admitted { assert!(ended, "[C01 C05 C11 iter-none-only-at-end] an admitted holder reports the end only after the wrapped iterator did"); }
                if admitted && ended {
                    let s = st();
                    let mut set = false;
                    let mut i = 0;
                    while i < LOGN { if i < s.n && s.log[i].loc == 3 && s.log[i].kind == 6 && s.log[i].arg == 1 { set = true; } i += 1; }
                    assert!(set, "[C05 C06 C11 iter-end-flag] a one-shot chunk pull that finds the source exhausted records the end (`completed`), so has_more is No afterwards");
                }
            }
        }
        let _ = len;
    }

    // @harness name=iter_chunk_huge props=C16,C03,C01 kind=bounded bound="chunk size anywhere in 3..=usize::MAX on a source with <= 2 remaining items; fruitless polls <= 2"
    #[kani::proof]
    #[kani::unwind(18)]
    #[kani::stub(std::sync::atomic::Atomic::<usize>::fetch_add, a_faa)]
    #[kani::stub(std::sync::atomic::Atomic::<usize>::load, a_load)]
    #[kani::stub(std::sync::atomic::Atomic::<usize>::store, a_store)]
    #[kani::stub(std::sync::atomic::Atomic::<bool>::load, b_load)]
    #[kani::stub(std::sync::atomic::Atomic::<bool>::store, b_store)]
    #[kani::stub(std::sync::atomic::Atomic::<bool>::swap, b_swap)]
    #[kani::stub(std::sync::atomic::Atomic::<bool>::fetch_or, b_for)]
    #[kani::stub(std::sync::atomic::Atomic::<bool>::fetch_and, b_fand)]
    fn iter_chunk_huge() {
        let (it, k, len) = mk();
        locs(&it);
        kani::assume(len - k <= 2);
        let n: usize = kani::any();
        kani::assume(n >= 3);
        let r = it.next_chunk(n);
        let (b, admitted, items, ended) = chk_protocol(n, false, false);
        kani::cover!(n == usize::MAX && r.is_some(), "chunk size usize::MAX delivers the rest");
        match r {
            Some(mut c) => {
                assert!(admitted && c.begin_idx == b, "[C02 C03 C16 iter-begin] begin index is the ticket");
                let l = c.values.len();
                assert!(l == items && l >= 1 && l == len - k && ended, "[C01 C03 C16 iter-huge-chunk] a chunk larger than the rest delivers exactly the rest of the source");
                assert!(c.values.next() == Some(k), "[C01 C02 C16 iter-contents] items are delivered in source order");
            }
            None => assert!(items == 0, "[C01 C16 iter-none-lost] no item is taken from the wrapped iterator and then dropped"),
        }
    }

    // concrete extreme chunk sizes with the REAL atomics (a symbolic size would make an eager allocation explode in CBMC)
    // @harness name=iter_chunk_extreme props=C16,C03 kind=bounded bound="chunk size in {usize::MAX, usize::MAX - 1, usize::MAX / 2} on a source of length <= 2; sequential"
    #[kani::proof]
    #[kani::unwind(6)]
    fn iter_chunk_extreme() {
        let len: usize = kani::any();
        kani::assume(len <= 2);
        let it = ConIterOfIter::new(0..len);
        let sel: u8 = kani::any();
        kani::assume(sel < 3);
        let n = if sel == 0 { usize::MAX } else if sel == 1 { usize::MAX - 1 } else { usize::MAX / 2 };
        let r = it.next_chunk(n).map(|mut c| (c.begin_idx, c.values.len(), c.values.next()));
        kani::cover!(len == 2 && sel == 0, "usize::MAX on two elements");
        if len == 0 { assert!(r.is_none(), "[C16 C03 iter-extreme-chunk] an extreme chunk size on an empty source reports the end"); }
        else { assert!(r == Some((0, len, Some(0))), "[C16 C03 iter-extreme-chunk] an extreme chunk size delivers exactly the rest of the source and does not panic"); }
        assert!(it.next().is_none(), "[C16 C05 C06 iter-extreme-chunk] afterwards the iterator is exhausted");
    }

    // @harness name=iter_chunk_zero props=C16,C11 kind=bounded bound="fruitless polls <= 2"
    #[kani::proof]
    #[kani::unwind(18)]
    #[kani::stub(std::sync::atomic::Atomic::<usize>::fetch_add, a_faa)]
    #[kani::stub(std::sync::atomic::Atomic::<usize>::load, a_load)]
    #[kani::stub(std::sync::atomic::Atomic::<usize>::store, a_store)]
    #[kani::stub(std::sync::atomic::Atomic::<bool>::load, b_load)]
    #[kani::stub(std::sync::atomic::Atomic::<bool>::store, b_store)]
    #[kani::stub(std::sync::atomic::Atomic::<bool>::swap, b_swap)]
    #[kani::stub(std::sync::atomic::Atomic::<bool>::fetch_or, b_for)]
    #[kani::stub(std::sync::atomic::Atomic::<bool>::fetch_and, b_fand)]
    fn iter_chunk_zero() {
        let (it, _k, _len) = mk();
        locs(&it);
        let r = it.next_chunk(0);
        kani::cover!(true, "reached");
        assert!(r.is_none(), "[C16 chunk-zero-none] a one-shot chunk pull of size zero delivers nothing");
        let s = st();
        let mut i = 0;
        while i < LOGN {
            if i < s.n {
                let e = s.log[i];
                assert!(!(e.loc == 3 && e.kind == 6), "[C16 C11 chunk-zero-unchanged] a chunk pull of size zero does not set `completed`");
                assert!(e.loc != 9, "[C16 chunk-zero-unchanged] a chunk pull of size zero does not touch the wrapped iterator");
                assert!(!(e.kind == 1 && e.arg != 0) && !(e.kind == 3 && e.loc != 3), "[C16 chunk-zero-unchanged] a chunk pull of size zero leaves both counters unchanged");
            }
            i += 1;
        }
    }

    // @harness name=iter_buffered group=default,nodebug props_nodebug=C17 props=C01,C02,C03,C04,C05,C06,C07,C09,C11,C12 kind=bounded bound="chunk size == 2; fruitless polls <= 2"
    #[kani::proof]
    #[kani::unwind(18)]
    #[kani::stub(std::sync::atomic::Atomic::<usize>::fetch_add, a_faa)]
    #[kani::stub(std::sync::atomic::Atomic::<usize>::load, a_load)]
    #[kani::stub(std::sync::atomic::Atomic::<usize>::store, a_store)]
    #[kani::stub(std::sync::atomic::Atomic::<bool>::load, b_load)]
    #[kani::stub(std::sync::atomic::Atomic::<bool>::store, b_store)]
    #[kani::stub(std::sync::atomic::Atomic::<bool>::swap, b_swap)]
    #[kani::stub(std::sync::atomic::Atomic::<bool>::fetch_or, b_for)]
    #[kani::stub(std::sync::atomic::Atomic::<bool>::fetch_and, b_fand)]
    fn iter_buffered() {
        let (it, k, _len) = mk();
        locs(&it);
        let n: usize = 2;   // concrete: a symbolic buffer capacity makes CBMC's allocation model explode
        let mut buf = it.buffered_iter(n);
        let r = buf.next();
        let (b, admitted, items, ended) = chk_protocol(n, true, false);
        kani::cover!(r.is_some() && n == 2 && items == 1, "short chunk at the end of the source");
        kani::cover!(admitted && r.is_none(), "holder finds the source exhausted");
        match r {
            Some(mut c) => {
                assert!(admitted, "[C01 C07 iter-some] a chunk is returned only by the admitted holder");
                assert!(c.begin_idx == b, "[C02 C03 iter-begin] begin index is the ticket");
                let l = c.values.len();
                // (contents first: a failed assertion ends its path)
                let mut j = 0;
                while j < 2 { if j < l { let x = c.values.next(); assert!(x.is_none() || x == Some(k + j), "[C01 C02 C03 C04 iter-contents] items are delivered in source order"); assert!(x.is_some(), "[C03 iter-exact-len] the chunk yields every item it announced"); } j += 1; }
                assert!(l == items && l >= 1 && l <= n, "[C01 C03 iter-exact-len] the chunk holds exactly the items taken from the wrapped iterator, 1 <= len <= n");
                assert!(l == n || ended, "[C01 C02 C03 iter-short-only-at-end] a chunk is shorter than n only when the source ended");
                assert!(l > 2 || c.values.next().is_none(), "[C03 iter-exact-len] the chunk yields exactly the announced number of items (stale slots are never yielded)");
            }
            None => {
                assert!(items == 0, "[C01 iter-none-lost] no item is taken from the wrapped iterator and then dropped");
                if admitted { assert!(ended, "[C01 C05 C11 iter-none-only-at-end] an admitted holder reports the end only after the wrapped iterator did"); }
            }
        }
    }

    // a buffered iterator is polled again after an earlier pull (whatever that pull saw -- a chunk, a short chunk, the end, or a
    // lost turn): the second pull follows the protocol like the first -- state kept in the buffer between calls must not make it
    // skip its reservation or the publication of its ticket (later tickets would wait forever)
    // @harness name=iter_buffered_again props=C09,C01,C05,C07 kind=bounded bound="chunk size == 2; two consecutive pulls on one buffered iterator; fruitless polls <= 2 per pull"
    #[kani::proof]
    #[kani::unwind(18)]
    #[kani::stub(std::sync::atomic::Atomic::<usize>::fetch_add, a_faa)]
    #[kani::stub(std::sync::atomic::Atomic::<usize>::load, a_load)]
    #[kani::stub(std::sync::atomic::Atomic::<usize>::store, a_store)]
    #[kani::stub(std::sync::atomic::Atomic::<bool>::load, b_load)]
    #[kani::stub(std::sync::atomic::Atomic::<bool>::store, b_store)]
    #[kani::stub(std::sync::atomic::Atomic::<bool>::swap, b_swap)]
    #[kani::stub(std::sync::atomic::Atomic::<bool>::fetch_or, b_for)]
    #[kani::stub(std::sync::atomic::Atomic::<bool>::fetch_and, b_fand)]
    fn iter_buffered_again() {
        let (it, _k, _len) = mk();
        locs(&it);
        let n: usize = 2;
        let mut buf = it.buffered_iter(n);
        let first_none = buf.next().is_none();
        // a new call: fresh log, fresh environment
        { let s = st(); s.n = 0; s.nw = 0; s.nl = 0; s.polls = 0; s.have_ticket = false; s.have_y = false; }
        let r = buf.next();
        let (_b, admitted, items, ended) = chk_protocol(n, true, false);
        kani::cover!(first_none && admitted, "polled again after it reported the end, and admitted");
        match r {
            Some(c) => { assert!(admitted && c.values.len() == items && items >= 1, "[C01 C07 iter-again-some] a chunk is returned only by the admitted holder and holds what it took"); }
            None => { assert!(items == 0, "[C01 iter-none-lost] no item is taken from the wrapped iterator and then dropped"); if admitted { assert!(ended, "[C01 C05 iter-none-only-at-end] an admitted holder reports the end only after the wrapped iterator did"); } }
        }
    }

    // @harness name=iter_skip props=C06,C11,C07,C04,C02,C01 kind=bounded bound="one skip_to_end; all values read symbolic"
    #[kani::proof]
    #[kani::unwind(18)]
    #[kani::stub(std::sync::atomic::Atomic::<usize>::fetch_add, a_faa)]
    #[kani::stub(std::sync::atomic::Atomic::<usize>::load, a_load)]
    #[kani::stub(std::sync::atomic::Atomic::<usize>::store, a_store)]
    #[kani::stub(std::sync::atomic::Atomic::<bool>::load, b_load)]
    #[kani::stub(std::sync::atomic::Atomic::<bool>::store, b_store)]
    #[kani::stub(std::sync::atomic::Atomic::<bool>::swap, b_swap)]
    #[kani::stub(std::sync::atomic::Atomic::<bool>::fetch_or, b_for)]
    #[kani::stub(std::sync::atomic::Atomic::<bool>::fetch_and, b_fand)]
    fn iter_skip() {
        let (it, _k, _len) = mk();
        locs(&it);
        it.skip_to_end();
        kani::cover!(true, "reached");
        let s = st();
        let mut set = false;
        let mut i = 0;
        while i < LOGN {
            if i < s.n {
                let e = s.log[i];
                if e.loc == 3 && e.kind == 6 { assert!(e.arg == 1, "[C06 iter-skip-flag] skip_to_end sets `completed`"); set = true; }
                assert!(e.loc != 9, "[C06 C07 C04 C02 C01 iter-skip-untouched] skip_to_end does not use the wrapped iterator (it does not own the turn: elements taken here are lost or reordered for the pulls in flight)");
                assert!(e.loc != 2 || e.kind == 2, "[C06 C09 iter-skip-y] skip_to_end does not move `yielded` (in-flight holders keep their turn)");
                assert!(!(e.loc == 1 && e.kind == 3 && e.arg > usize::MAX / 2), "[C06 iter-skip-headroom] skip_to_end does not park the ticket counter next to usize::MAX, where the next reservation wraps it");
            }
            i += 1;
        }
        assert!(set, "[C06 iter-skip-flag] skip_to_end sets `completed`");
    }

    // @harness name=iter_pull_after_skip props=C06,C05,C11 kind=bounded bound="chunk size <= 2; `completed` already set (rely: it is monotone, clause iter-flag-monotone); every counter value symbolic"
    #[kani::proof]
    #[kani::unwind(18)]
    #[kani::stub(std::sync::atomic::Atomic::<usize>::fetch_add, a_faa)]
    #[kani::stub(std::sync::atomic::Atomic::<usize>::load, a_load)]
    #[kani::stub(std::sync::atomic::Atomic::<usize>::store, a_store)]
    #[kani::stub(std::sync::atomic::Atomic::<bool>::load, b_load)]
    #[kani::stub(std::sync::atomic::Atomic::<bool>::store, b_store)]
    #[kani::stub(std::sync::atomic::Atomic::<bool>::swap, b_swap)]
    #[kani::stub(std::sync::atomic::Atomic::<bool>::fetch_or, b_for)]
    #[kani::stub(std::sync::atomic::Atomic::<bool>::fetch_and, b_fand)]
    fn iter_pull_after_skip() {
        let (it, _k, _len) = mk();
        locs(&it);
        st().flag_mode = 1;   // `completed` was set before this pull started
        let op: u8 = kani::any();
        kani::assume(op < 4);
        let mut delivered = false;
        if op == 0 { delivered = it.next_id_and_value().is_some(); }
        else if op == 1 { let n: usize = kani::any(); kani::assume(n >= 1 && n <= 2); delivered = it.next_chunk(n).is_some(); }
        else if op == 2 { let n: usize = kani::any(); kani::assume(n >= 1 && n <= 2); let mut b = it.buffered_iter(n); delivered = b.next().is_some(); }
        else {
            assert!(it.try_get_len() == Some(0), "[C06 C11 C05 iter-len-after-end] try_get_len is Some(0) once `completed` is set");
            assert!(it.has_more() == crate::HasMore::No, "[C06 C11 C05 iter-len-after-end] has_more is No once `completed` is set");
        }
        kani::cover!(op == 0, "single pull");
        kani::cover!(op == 2, "buffered pull");
        assert!(!delivered, "[C06 C05 iter-end-permanent] a pull that starts after `completed` was set reports the end");
        let s = st();
        let mut i = 0;
        while i < LOGN { if i < s.n { assert!(s.log[i].loc != 9, "[C06 C05 C07 iter-end-untouched] a pull that starts after `completed` was set does not use the wrapped iterator"); } i += 1; }
    }

    // @harness name=iter_len props=C11,C07 kind=bounded bound="all values read symbolic; exact, inexact and unbounded size hints"
    #[kani::proof]
    #[kani::unwind(18)]
    #[kani::stub(std::sync::atomic::Atomic::<usize>::fetch_add, a_faa)]
    #[kani::stub(std::sync::atomic::Atomic::<usize>::load, a_load)]
    #[kani::stub(std::sync::atomic::Atomic::<usize>::store, a_store)]
    #[kani::stub(std::sync::atomic::Atomic::<bool>::load, b_load)]
    #[kani::stub(std::sync::atomic::Atomic::<bool>::store, b_store)]
    #[kani::stub(std::sync::atomic::Atomic::<bool>::swap, b_swap)]
    #[kani::stub(std::sync::atomic::Atomic::<bool>::fetch_or, b_for)]
    #[kani::stub(std::sync::atomic::Atomic::<bool>::fetch_and, b_fand)]
    fn iter_len() {
        let (it, k, len) = mk_honest();
        locs(&it);
        let which: bool = kani::any();
        let r = if which { it.try_get_len() } else { match it.has_more() { crate::HasMore::No => Some(0), crate::HasMore::Yes(x) => { assert!(x > 0, "[C11 iter-more-yes] Yes(k) only with k > 0"); Some(x) } crate::HasMore::Maybe => None } };
        let s = st();
        let mut flag = false; let mut c = 0usize; let mut have_c = false;
        let mut i = 0;
        while i < LOGN {
            if i < s.n {
                let e = s.log[i];
                assert!(e.loc != 9, "[C07 C11 iter-len-untouched] try_get_len / has_more never touch the wrapped iterator (a &self query runs concurrently with the ticket holder's next())");
                assert!(e.kind == 2 || e.kind == 5, "[C11 iter-len-frame] try_get_len only reads");
                if e.kind == 5 && e.ret == 1 { flag = true; }
                if e.kind == 2 && e.loc == 1 { c = e.ret; have_c = true; }
            }
            i += 1;
        }
        kani::cover!(!flag && have_c && c < len - k, "elements remain");
        if flag { assert!(r == Some(0), "[C11 C05 C06 iter-len-completed] try_get_len is Some(0) once `completed` was observed"); }
        else { assert!(have_c && r == Some(remaining(c, len - k)), "[C11 iter-len] for an exact size hint try_get_len is max(initial_len - reserved, 0)"); }
    }

    // @harness name=iter_len_hint props=C11,C01,C04 kind=complete
    #[kani::proof]
    fn iter_len_hint() {
        struct H(usize, Option<usize>);
        impl Iterator for H { type Item = u8; fn next(&mut self) -> Option<u8> { None } fn size_hint(&self) -> (usize, Option<usize>) { (self.0, self.1) } }
        let lo: usize = kani::any();
        let hi: Option<usize> = kani::any();
        // every way of building the iterator records the same facts about the source
        let route: u8 = kani::any();
        kani::assume(route < 3);
        let it: ConIterOfIter<u8, H> = if route == 0 { ConIterOfIter::new(H(lo, hi)) } else if route == 1 { ConIterOfIter::from(H(lo, hi)) } else { crate::IterIntoConcurrentIter::into_con_iter(H(lo, hi)) };
        kani::cover!(route == 1, "From impl");
        assert!(it.reserved_counter.current() == 0 && it.yielded_counter.current() == 0 && !it.completed.load(atomic::Ordering::SeqCst), "[C11 C01 C04 iter-ctor-fresh] a new iterator has handed out no ticket, published none, and has not ended");
        kani::cover!(hi == Some(lo), "exact hint");
        kani::cover!(hi.is_none(), "unbounded hint");
        let exact = hi == Some(lo);
        assert!(it.initial_len == if exact { Some(lo) } else { None }, "[C11 iter-hint] a length is recorded only for an exact size hint");
        let r = it.try_get_len();
        if exact { assert!(r == Some(lo), "[C11 iter-hint] exact hint: try_get_len is the hint before any pull"); }
        else { assert!(r.is_none() && it.has_more() == crate::HasMore::Maybe, "[C11 iter-maybe] Maybe exactly for sources of unknown size that have not ended"); }
    }

    // sequential corollary with the REAL atomics: skip_to_end, then up to three further pulls: all report the end (C06, F5)
    // @harness name=iter_seq_skip_then_pulls props=C06,C05,C11 kind=bounded bound="source length <= 3; up to 3 pulls before and 3 after the skip; chunk sizes <= 2"
    #[kani::proof]
    #[kani::unwind(6)]
    fn iter_seq_skip_then_pulls() {
        let len: usize = kani::any();
        kani::assume(len <= 3);
        let it = ConIterOfIter::new(0..len);
        let pre: u8 = kani::any();
        kani::assume(pre <= 3);
        let mut i = 0;
        while i < pre { let _ = it.next(); i += 1; }
        it.skip_to_end();
        kani::cover!(pre == 0 && len > 0, "skip before any pull");
        assert!(it.has_more() == crate::HasMore::No, "[C06 C11 seq-skip-more] has_more is No after skip_to_end");
        let mut j = 0;
        while j < 3 {
            let op: u8 = kani::any();
            kani::assume(op < 3);
            let got = if op == 0 { it.next().is_some() } else if op == 1 { it.next_chunk(2).is_some() } else { let mut b = it.buffered_iter(2); let x = b.next().is_some(); x };
            assert!(!got, "[C06 C05 seq-skip-end] every pull after skip_to_end reports the end, however often it is repeated");
            j += 1;
        }
    }

    // C08 / C15 for an OWNING wrapped iterator (elements live in the wrapped iterator, in the Vec collected by a one-shot chunk
    // pull and in the reused Option<T> buffer of a buffered iterator): two pulls with partial consumption, then drop of
    // everything / into_seq_iter; every element is delivered or destroyed exactly once.  Real atomics, sequential.
    fn chk_iter_ledger(len: usize, delivered: &[bool; 4]) {
        let d = drops();
        let mut k = 0;
        while k < 4 {
            if k < len {
                if delivered[k] { assert!(d[k] == 0, "[C08 iter-ledger-delivered] a delivered element is not also dropped by the machinery (never both)"); }
                else {
                    assert!(d[k] >= 1, "[C08 C15 iter-ledger-neither] an undelivered element is destroyed (never neither)");
                    assert!(d[k] <= 1, "[C08 iter-ledger-twice] an undelivered element is destroyed only once (never twice)");
                }
            }
            k += 1;
        }
    }

    // @harness name=iter_ledger_buffered props=C08,C15,C01,C02,C03,C04 kind=bounded bound="owning source of length <= 4; buffered chunk size 2; two pulls, first chunk consumed 0..=2 items, second 0..=2; then drop or into_seq_iter"
    #[kani::proof]
    #[kani::unwind(7)]
    fn iter_ledger_buffered() {
        let len: usize = kani::any();
        kani::assume(len <= 4);
        let mut v = Vec::new();
        let mut i = 0;
        while i < len { v.push(D(i)); i += 1; }
        let it = ConIterOfIter::new(v.into_iter());
        let mut delivered = [false; 4];
        {
            let mut buf = it.buffered_iter(2);
            let mut round = 0;
            while round < 2 {
                let take: usize = kani::any();
                kani::assume(take <= 2);
                if let Some(mut ch) = buf.next() {
                    let b = ch.begin_idx;
                    let l = ch.values.len();
                    assert!(l >= 1 && l <= 2 && b == 2 * round, "[C03 C01 C04 iter-ledger-chunk] buffered chunks are consecutive runs of the source");
                    let mut k = 0;
                    while k < 2 { if k < take && k < l { let x = ch.values.next().unwrap(); assert!(x.0 == b + k, "[C01 C02 C04 iter-ledger-contents] chunk elements are the source elements at begin + k, in order"); delivered[b + k] = true; std::mem::forget(x); } k += 1; }
                    if take >= l { assert!(ch.values.next().is_none(), "[C03 iter-ledger-exact] the chunk yields exactly the announced number of elements (no stale element of the previous chunk)"); }
                    kani::cover!(round == 1 && take == 0 && l == 1, "short second chunk over a stale slot");
                }
                round += 1;
            }
        }
        let fin: bool = kani::any();
        if fin { drop(it); } else { let s = it.into_seq_iter(); drop(s); }
        chk_iter_ledger(len, &delivered);
    }

    // @harness name=iter_ledger_chunk props=C08,C15 kind=bounded bound="owning source of length <= 3; one single pull and one one-shot chunk of size 2, chunk consumed 0..=2 items; then drop or into_seq_iter"
    #[kani::proof]
    #[kani::unwind(6)]
    fn iter_ledger_chunk() {
        let len: usize = kani::any();
        kani::assume(len <= 3);
        let mut v = Vec::new();
        let mut i = 0;
        while i < len { v.push(D(i)); i += 1; }
        let it = ConIterOfIter::new(v.into_iter());
        let mut delivered = [false; 4];
        let first: bool = kani::any();
        let mut base = 0;
        if first { if let Some(x) = it.next_id_and_value() { assert!(x.idx == 0 && x.value.0 == 0, "[C01 C02 iter-ledger-contents] a single pull delivers the next source element"); delivered[0] = true; std::mem::forget(x.value); } base = 1; }
        let take: usize = kani::any();
        kani::assume(take <= 2);
        {
            if let Some(mut ch) = it.next_chunk(2) {
                let b = ch.begin_idx;
                assert!(b == base, "[C02 C03 iter-ledger-chunk] the chunk begins at the next position");
                let l = ch.values.len();
                let mut k = 0;
                while k < 2 { if k < take && k < l { let x = ch.values.next().unwrap(); assert!(x.0 == b + k, "[C01 C02 C04 iter-ledger-contents] chunk elements are the source elements at begin + k, in order"); delivered[b + k] = true; std::mem::forget(x); } k += 1; }
                kani::cover!(l == 2 && take == 1, "chunk partly consumed");
            };
        }
        let fin: bool = kani::any();
        if fin { drop(it); } else { let s = it.into_seq_iter(); drop(s); }
        chk_iter_ledger(len, &delivered);
    }

    // C10 for the wrapped iterator: into_seq_iter hands back the wrapped iterator, which has advanced exactly past the delivered items
    // @harness name=iter_into_seq props=C10,C04,C01 kind=bounded bound="source of length <= 4; up to 2 single pulls and one chunk / buffered pull of size 2 (possibly overshooting) before the conversion; sequential"
    #[kani::proof]
    #[kani::unwind(7)]
    fn iter_into_seq() {
        let len: usize = kani::any();
        kani::assume(len <= 4);
        let it = ConIterOfIter::new(0..len);
        let singles: u8 = kani::any();
        kani::assume(singles <= 2);
        let mut delivered = 0usize;
        let mut i = 0;
        while i < singles { if it.next().is_some() { delivered += 1; } i += 1; }
        let op: u8 = kani::any();
        kani::assume(op < 3);
        if op == 1 { if let Some(c) = it.next_chunk(2) { delivered += c.values.len(); } }
        else if op == 2 { let mut b = it.buffered_iter(2); if let Some(c) = b.next() { delivered += c.values.len(); }; }
        kani::cover!(op == 2 && delivered == 3, "singles then a buffered chunk");
        kani::cover!(delivered == len && len > 0, "exactly exhausted");
        let mut rest = it.into_seq_iter();
        let mut k = delivered;
        while k < 5 {
            let x = rest.next();
            if k < len { assert!(x == Some(k), "[C10 C04 C01 iter-remainder] into_seq_iter yields exactly the undelivered remainder, in source order"); }
            else { assert!(x.is_none(), "[C10 iter-remainder] ... and nothing else"); }
            k += 1;
        }
    }
}
