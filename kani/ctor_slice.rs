// @module src/iter/implementors/slice.rs
// Constructors of the non-consuming kinds, by concrete type: `con_iter()` of a Vec / array / slice is a ConIterOfSlice over the
// collection in place.  (Kept in its own file: it names the concrete type the constructors return.)
mod vk_ctor_slice {
    use super::*;
    use crate::{ConcurrentIterable, IntoConcurrentIter};

    // @harness name=slice_constructors props=C19 kind=bounded bound="collections of length 3"
    #[kani::proof]
    #[kani::unwind(5)]
    fn slice_constructors() {
        let a: [u8; 3] = kani::any();
        let copy = a;
        {
            let it = a.con_iter();
            assert!(std::ptr::eq(it.as_slice().as_ptr(), a.as_ptr()) && it.as_slice().len() == 3 && it.counter().current() == 0, "[C19 ctor-array] con_iter of an array iterates the array in place from position 0");
            let it2 = a.con_iter();
            let _ = it.next();
            assert!(it2.counter().current() == 0, "[C19 independent] separate iterators over one collection progress independently");
        }
        let v = vec![a[0], a[1], a[2]];
        {
            let it = v.con_iter();
            assert!(std::ptr::eq(it.as_slice().as_ptr(), v.as_ptr()) && it.as_slice().len() == 3 && it.counter().current() == 0, "[C19 ctor-vec] con_iter of a Vec iterates the Vec in place from position 0");
            let _ = it.next_chunk(2).map(|c| c.begin_idx);
            it.skip_to_end();
        }
        assert!(v.len() == 3 && v[0] == copy[0] && v[1] == copy[1] && v[2] == copy[2], "[C19 unmodified] the collection is unmodified and usable afterwards");
        let s: &[u8] = &a[..];
        let it = s.con_iter();
        assert!(std::ptr::eq(it.as_slice().as_ptr(), a.as_ptr()) && it.counter().current() == 0, "[C19 ctor-slice] con_iter of a slice iterates the slice in place from position 0");
        let it = s.into_con_iter();
        assert!(std::ptr::eq(it.as_slice().as_ptr(), a.as_ptr()) && it.counter().current() == 0, "[C19 ctor-slice] into_con_iter of a slice iterates the slice in place from position 0");
        assert!(a == copy, "[C19 unmodified] the collection is unmodified and usable afterwards");
    }
}
