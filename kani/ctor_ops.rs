// @module src/iter/con_iter.rs
// Every constructor route of the known-size kinds yields an iterator whose pulls are wait-free: ONE fetch_add on its counter, no
// other write, the result derived from that fetch_add (C09 first half, C01, C04) -- whatever concrete type the route returns
// (only the ConcurrentIter trait is used here).
mod vk_ctor_ops {
    use crate::verif_common::*;
    use crate::{ConcurrentIter, ConcurrentIterable, IntoConcurrentIter};

    fn one_pull<I: ConcurrentIter>(it: &I, len: usize) {
        { let s = st(); s.n = 0; s.nw = 0; s.nl = 0; }
        let single: bool = kani::any();
        let n: usize = if single { 1 } else { 2 };
        let r = if single { it.next_id_and_value().map(|x| x.idx) } else { it.next_chunk(2).map(|c| c.begin_idx) };
        chk_std_ops(0, n, len);
        let b = first_write().ret;
        assert!(r == if b < len { Some(b) } else { None }, "[C09 C01 C02 C04 ctor-pull] a pull on a freshly constructed known-size iterator is decided by its own fetch_add alone (it waits for nobody)");
    }

    // @harness name=ctor_pull_ops props=C09,C01,C02,C04 kind=bounded bound="collections of length 3; every constructor route of vec / array / slice / range; one single or chunk(2) pull with the std atomics stubbed"
    #[kani::proof]
    #[kani::unwind(18)]
    #[kani::stub(std::sync::atomic::Atomic::<usize>::fetch_add, a_faa)]
    #[kani::stub(std::sync::atomic::Atomic::<usize>::fetch_sub, a_fsub)]
    #[kani::stub(std::sync::atomic::Atomic::<usize>::swap, a_swap)]
    #[kani::stub(std::sync::atomic::Atomic::<usize>::load, a_load)]
    #[kani::stub(std::sync::atomic::Atomic::<usize>::store, a_store)]
    fn ctor_pull_ops() {
        let a: [u8; 3] = kani::any();
        let which: u8 = kani::any();
        kani::assume(which < 7);
        kani::cover!(which == 0, "borrowed array");
        kani::cover!(which == 6, "range");
        if which == 0 { let it = a.con_iter(); one_pull(&it, 3); }
        else if which == 1 { let v = vec![a[0], a[1], a[2]]; { let it = v.con_iter(); one_pull(&it, 3); } }
        else if which == 2 { let s: &[u8] = &a[..]; let it = s.con_iter(); one_pull(&it, 3); }
        else if which == 3 { let s: &[u8] = &a[..]; let it = IntoConcurrentIter::into_con_iter(s); one_pull(&it, 3); }
        else if which == 4 { let it = IntoConcurrentIter::into_con_iter(a); one_pull(&it, 3); std::mem::forget(it); }
        else if which == 5 { let it = IntoConcurrentIter::into_con_iter(vec![a[0], a[1], a[2]]); one_pull(&it, 3); std::mem::forget(it); }
        else { let r = 5usize..8; let it = r.con_iter(); one_pull(&it, 3); }
    }
}
