// @module src/iter/implementors/vec.rs
// DERIVED from kani/vec.rs by tools/mk_thorough.py (thorough tier: vectors up to length 4).  ConIterOfVec: memory effects of the unsafe code (C08 drop ledger, C15 leaks, C17 std preconditions) -- bounded in the
// vector length (N), complete in the counter value c and the chunk size n.  Per-operation induction: from ANY counter
// value c (positions below min(c, len) are "owned elsewhere": moved out by earlier pulls), ONE public operation, then
// drop or into_seq_iter; every element is delivered or destroyed exactly once.
mod vk_vec_n4 {
    use super::*;
    use crate::verif_common::*;

    const N: usize = 4;

    fn mk(len: usize) -> ConIterOfVec<D> {
        let mut v = Vec::new();
        let mut i = 0;
        while i < len { v.push(D(i)); i += 1; }
        ConIterOfVec::new(v)
    }

    // after everything has been dropped: position k was (a) moved out before the operation, (b) delivered to the caller
    // and forgotten there, or (c) destroyed exactly once by the iterator machinery
    fn chk_ledger(len: usize, owned_from: usize, delivered: &[bool; N]) {
        let d = drops();
        let mut k = 0;
        while k < N {
            if k < len {
                if k < owned_from { assert!(d[k] == 0, "[C08 ledger-moved-out] an element moved out by an earlier pull is never dropped by the iterator"); }
                else if delivered[k] { assert!(d[k] == 0, "[C08 ledger-delivered] a delivered element is not also dropped by the iterator (never both)"); }
                else {
                    assert!(d[k] >= 1, "[C08 C15 ledger-neither] an undelivered element is destroyed by the iterator machinery (never neither)");
                    assert!(d[k] <= 1, "[C08 ledger-twice] an undelivered element is destroyed only once (never twice)");
                }
            }
            k += 1;
        }
    }

    // @harness name=vec_ledger_next_n4 tier=thorough group=default,nodebug props_nodebug=C17 props=C08,C01,C02 kind=bounded bound="len <= 4; counter value c over the full usize domain"
    #[kani::proof]
    #[kani::unwind(6)]
    #[kani::stub(std::thread::panicking, any_panicking)]
    fn vec_ledger_next_n4() {
        let len: usize = kani::any();
        kani::assume(len <= N);
        let it = mk(len);
        let c: usize = kani::any();
        let fin: bool = kani::any();                          // (chosen up front: the symbolic inputs then come in a fixed order)
        kani::assume(c < usize::MAX);                          // no-wrap regime
        it.counter().store(c);
        let owned_from = if c < len { c } else { len };
        let mut delivered = [false; N];
        let r = it.next_id_and_value();
        kani::cover!(r.is_some(), "delivering");
        kani::cover!(c > len, "overshot");
        match r {
            Some(x) => {
                assert!(c < len && x.idx == c, "[C01 C02 idx] next delivers the reserved position");
                assert!(x.value.0 == c, "[C02 C08 value] the element moved out is the one at that position");
                delivered[c] = true;
                std::mem::forget(x.value);
            }
            None => assert!(c >= len, "[C01 none-iff] None only past the end"),
        }
        if fin { drop(it); } else { let s = it.into_seq_iter(); drop(s); }
        chk_ledger(len, owned_from, &delivered);
    }

    // @harness name=vec_ledger_chunk_n4 tier=thorough group=default,nodebug props_nodebug=C17 props=C08,C01,C02,C03 kind=bounded bound="len <= 4; c, n over the full usize domain (c + n <= usize::MAX); any number of chunk items consumed"
    #[kani::proof]
    #[kani::unwind(6)]
    #[kani::stub(std::thread::panicking, any_panicking)]
    fn vec_ledger_chunk_n4() {
        let len: usize = kani::any();
        kani::assume(len <= N);
        let it = mk(len);
        let c: usize = kani::any();
        let n: usize = kani::any();
        kani::assume(n >= 1 && n <= usize::MAX - c);          // no-wrap regime
        it.counter().store(c);
        let owned_from = if c < len { c } else { len };
        let mut delivered = [false; N];
        let take: usize = kani::any();                         // how many items of the chunk the caller consumes before dropping it
        let fin: bool = kani::any();                          // (chosen up front: the symbolic inputs then come in a fixed order)
        {
        let r = it.next_chunk(n);
        kani::cover!(r.is_some() && take == 0, "chunk dropped unconsumed");
        kani::cover!(r.is_some() && take == 1 && n > 1 && c + 1 < len, "chunk partly consumed");
        match r {
            Some(mut ch) => {
                assert!(c < len && ch.begin_idx == c, "[C02 C03 begin] chunk begins at the reserved position");
                let l = ch.values.len();
                // (contents first: a failed assertion ends its path, so the more specific clause is checked before the length)
                let mut k = 0;
                while k < N && k < take {
                    match ch.values.next() {
                        Some(x) => {
                            assert!(x.0 == c + k, "[C02 C03 C08 contents] k-th chunk element is the one at position c + k");
                            assert!(c + k < len, "[C02 C03 contents] chunk elements are source elements");
                            delivered[c + k] = true;
                            std::mem::forget(x);
                        }
                        None => { assert!(k >= l, "[C03 exact-len] the chunk yields every element it announced"); }
                    }
                    k += 1;
                }
                assert!(l == clamp_end(c, n, len) - c, "[C01 C03 exact-len] chunk length is min(n, len - c)");
                if take >= l { assert!(ch.values.next().is_none(), "[C03 exact-len] the chunk yields exactly the announced number of elements");
                               assert!(ch.values.len() == 0 && ch.values.next().is_none(), "[C03 exact-len-after-end] an exhausted chunk keeps reporting length 0 and the end"); }
                drop(ch);
            }
            None => assert!(c >= len, "[C01 C03 none-iff] None only past the end"),
        }
        }
        if fin { drop(it); } else { let s = it.into_seq_iter(); drop(s); }
        chk_ledger(len, owned_from, &delivered);
    }

    // @harness name=vec_ledger_buffered_n4 tier=thorough props=C08,C01,C02,C03 kind=bounded bound="len <= 4; c, chunk size over the full usize domain; any number of chunk items consumed"
    #[kani::proof]
    #[kani::unwind(6)]
    #[kani::stub(std::thread::panicking, any_panicking)]
    fn vec_ledger_buffered_n4() {
        let len: usize = kani::any();
        kani::assume(len <= N);
        let it = mk(len);
        let c: usize = kani::any();
        let n: usize = kani::any();
        kani::assume(n >= 1 && n <= usize::MAX - c);
        it.counter().store(c);
        let owned_from = if c < len { c } else { len };
        let mut delivered = [false; N];
        let take: usize = kani::any();
        let fin: bool = kani::any();                          // (chosen up front: the symbolic inputs then come in a fixed order)
        {
            let mut buf = it.buffered_iter(n);
            let r = buf.next();
            kani::cover!(r.is_some() && take == 1 && n > 1 && c + 1 < len, "chunk partly consumed");
            match r {
                Some(mut ch) => {
                    assert!(c < len && ch.begin_idx == c, "[C02 C03 begin] chunk begins at the reserved position");
                    let l = ch.values.len();
                    let mut k = 0;
                    while k < N && k < take {
                        match ch.values.next() {
                            Some(x) => {
                                assert!(x.0 == c + k, "[C02 C03 C08 contents] k-th chunk element is the one at position c + k");
                                assert!(c + k < len, "[C02 C03 contents] chunk elements are source elements");
                                delivered[c + k] = true;
                                std::mem::forget(x);
                            }
                            None => { assert!(k >= l, "[C03 exact-len] the chunk yields every element it announced"); }
                        }
                        k += 1;
                    }
                    assert!(l == clamp_end(c, n, len) - c, "[C01 C03 exact-len] chunk length is min(n, len - c)");
                    drop(ch);
                }
                None => assert!(c >= len, "[C01 C03 none-iff] None only past the end"),
            }
        }
        if fin { drop(it); } else { let s = it.into_seq_iter(); drop(s); }
        chk_ledger(len, owned_from, &delivered);
    }

    // @harness name=vec_ledger_skip_n4 tier=thorough group=default,nodebug props_nodebug=C17 props=C08,C15,C06,C10 kind=bounded bound="len <= 4; c over the full usize domain"
    #[kani::proof]
    #[kani::unwind(6)]
    #[kani::stub(std::thread::panicking, any_panicking)]
    fn vec_ledger_skip_n4() {
        let len: usize = kani::any();
        kani::assume(len <= N);
        let it = mk(len);
        let c: usize = kani::any();
        let fin: bool = kani::any();                          // (chosen up front: the symbolic inputs then come in a fixed order)
        it.counter().store(c);
        let owned_from = if c < len { c } else { len };
        let delivered = [false; N];
        it.skip_to_end();
        kani::cover!(c < len, "skipped with elements remaining");
        assert!(it.next_id_and_value().is_none(), "[C06 skip-end] a pull after skip_to_end reports the end");
        assert!(it.try_get_len() == Some(0), "[C06 C11 skip-len] no remaining length after skip_to_end");
        if fin { drop(it); } else {
            let mut s = it.into_seq_iter();
            // after a skip the remainder is a (possibly empty) suffix of the undelivered elements
            let mut prev: Option<usize> = None;
            let mut k = 0;
            while k < N {
                if let Some(x) = s.next() {
                    assert!(x.0 >= owned_from && x.0 < len, "[C10 skip-suffix] elements of the remainder were not delivered before");
                    if let Some(p) = prev { assert!(x.0 == p + 1, "[C10 skip-suffix] the remainder is in source order"); }
                    prev = Some(x.0);
                }
                k += 1;
            }
            if let Some(p) = prev { assert!(p + 1 == len, "[C10 skip-suffix] the remainder is a suffix"); }
            drop(s);
        }
        chk_ledger(len, owned_from, &delivered);
    }

    // @harness name=vec_into_seq_n4 tier=thorough group=default,nodebug props_nodebug=C17 props=C10,C08 kind=bounded bound="len <= 4; c over the full usize domain"
    #[kani::proof]
    #[kani::unwind(6)]
    fn vec_into_seq_n4() {
        let len: usize = kani::any();
        kani::assume(len <= N);
        let it = mk(len);
        let c: usize = kani::any();
        it.counter().store(c);
        let owned_from = if c < len { c } else { len };
        let mut s = it.into_seq_iter();
        kani::cover!(owned_from > 0 && owned_from < len, "partly consumed");
        assert!(s.len() == len - owned_from, "[C10 remainder-len] the remainder has len - min(c, len) elements");
        let mut k = owned_from;
        while k < len {
            let x = s.next();
            assert!(x.is_some(), "[C10 remainder] every undelivered element is in the remainder");
            let x = x.unwrap();
            assert!(x.0 == k, "[C10 remainder-order] the remainder is in source order");
            std::mem::forget(x);
            k += 1;
        }
        assert!(s.next().is_none(), "[C10 remainder] nothing but the undelivered elements is in the remainder");
        drop(s);
        let d = drops();
        let mut k = 0;
        while k < N { assert!(d[k] == 0, "[C08 C10 ledger-delivered] the remainder owns its elements: nothing is dropped behind the caller's back"); k += 1; }
    }

    // @harness name=vec_std_pre_n4 tier=thorough props=C17 kind=bounded bound="len <= 4; c, n over the full usize domain; every operation"
    #[kani::proof]
    #[kani::unwind(6)]
    #[kani::stub(std::vec::Vec::from_raw_parts, s_from_raw_parts)]
    fn vec_std_pre_n4() {
        let len: usize = kani::any();
        kani::assume(len <= N);
        let mut v: Vec<u64> = Vec::new();
        let mut i = 0;
        while i < len { v.push(i as u64); i += 1; }
        let it = ConIterOfVec::new(v);
        let c: usize = kani::any();
        it.counter().store(c);
        let op: u8 = kani::any();
        kani::assume(op < 5);
        kani::cover!(op == 1 && c < len, "chunk delivered");
        if op == 0 { let _ = it.next(); }
        else if op == 1 { let n: usize = kani::any(); kani::assume(n >= 1 && n <= usize::MAX - c); if let Some(mut ch) = it.next_chunk(n) { let _ = ch.values.next(); } }
        else if op == 2 { let n: usize = kani::any(); kani::assume(n >= 1 && n <= usize::MAX - c); let mut b = it.buffered_iter(n); if let Some(mut ch) = b.next() { let _ = ch.values.next(); }; }
        else if op == 3 { it.skip_to_end(); }
        let fin: bool = kani::any();
        if fin { drop(it); } else { let s = it.into_seq_iter(); drop(s); }
        // obligations: the stub contract of Vec::from_raw_parts at every call site, and Kani's own checks of every raw
        // pointer operation (offset in bounds, dereference of live initialised memory, no double free)
    }

    // @harness name=vec_leak_n4 tier=thorough props=C15 kind=bounded group=leak bound="len <= 4 (u64 elements); c, n over the full usize domain; CBMC --memory-leak-check"
    #[kani::proof]
    #[kani::unwind(6)]
    fn vec_leak_n4() {
        let len: usize = kani::any();
        kani::assume(len <= N);
        let mut v: Vec<u64> = Vec::new();
        let mut i = 0;
        while i < len { v.push(i as u64); i += 1; }
        let it = ConIterOfVec::new(v);
        let c: usize = kani::any();
        it.counter().store(c);
        let op: u8 = kani::any();
        kani::assume(op < 4);
        kani::cover!(op == 1 && c < len, "chunk delivered");
        if op == 0 { let _ = it.next(); }
        else if op == 1 { let n: usize = kani::any(); kani::assume(n >= 1 && n <= usize::MAX - c); if let Some(mut ch) = it.next_chunk(n) { let _ = ch.values.next(); } }
        else if op == 2 { it.skip_to_end(); }
        let fin: bool = kani::any();
        if fin { drop(it); } else { let s = it.into_seq_iter(); drop(s); }
        // postcondition (checked by CBMC's memory-leak check at the end of the harness): nothing remains allocated
    }

    // ---- the contracts of the three unsafe helpers, exactly as the Verus unit contracts/vec.vrs ASSUMES them (external_body),
    //      checked here on the real bodies (bounded in the length, complete in the scalar arguments) ----

    // @harness name=vec_helper_take_one_n4 tier=thorough props=C08,C02,C17 kind=bounded bound="len <= 4; index symbolic (requires idx < len)"
    #[kani::proof]
    #[kani::unwind(6)]
    fn vec_helper_take_one_n4() {
        let len: usize = kani::any();
        kani::assume(len >= 1 && len <= N);
        let it = mk(len);
        let i: usize = kani::any();
        kani::assume(i < len);                                   // requires item_idx < vec_len
        let x = unsafe { it.take_one(i) };
        assert!(x.0 == i, "[C02 C08 helper-take-one] take_one(i) returns the element at position i");
        assert!(drops()[i] == 0, "[C08 helper-take-one] take_one moves the element out without dropping it");
        std::mem::forget(x);
        // nothing else changed: every other element is still there exactly once
        it.counter().store(i + 1);
        let mut k = i + 1;
        let mut s = it.into_seq_iter();
        while k < len { let y = s.next(); assert!(y.is_some() && y.as_ref().unwrap().0 == k, "[C08 helper-take-one-frame] take_one leaves every other element in place"); k += 1; }
        kani::cover!(i + 1 < len, "elements after i");
    }

    // @harness name=vec_helper_take_slice_n4 tier=thorough props=C08,C03,C17 kind=bounded bound="len <= 4; begin, len arguments over the full usize domain (requires begin <= vec_len); any number of items consumed"
    #[kani::proof]
    #[kani::unwind(6)]
    #[kani::stub(std::vec::Vec::from_raw_parts, s_from_raw_parts)]
    fn vec_helper_take_slice_n4() {
        let len: usize = kani::any();
        kani::assume(len <= N);
        let it = mk(len);
        let b: usize = kani::any();
        let n: usize = kani::any();
        kani::assume(b <= len);                                  // requires begin_idx <= vec_len
        let e = clamp_end(b, n, len);
        let take: usize = kani::any();
        {
            let mut ch = unsafe { it.take_slice(b, n) };
            assert!(ch.len() == e - b, "[C03 C08 helper-take-slice-len] take_slice(b, n) yields exactly the positions [b, min(b + n, len))");
            let mut k = 0;
            while k < e - b && k < take { let x = ch.next().unwrap(); assert!(x.0 == b + k, "[C03 C08 helper-take-slice-contents] take_slice yields the elements in source order"); std::mem::forget(x); k += 1; }
            if take >= e - b { assert!(ch.next().is_none(), "[C03 helper-take-slice-len] take_slice yields nothing beyond its range"); }
            kani::cover!(e - b == 2 && take == 1, "range partly consumed");
        }
        let d = drops();
        let mut k = 0;
        while k < N {
            if k < len {
                let in_range = k >= b && k < e;
                if in_range && k - b < take { assert!(d[k] == 0, "[C08 helper-take-slice-drop] consumed elements are not dropped by the range"); }
                else if in_range { assert!(d[k] == 1, "[C08 C15 helper-take-slice-drop] the range drops exactly the elements that were not consumed"); }
                else { assert!(d[k] == 0, "[C08 helper-take-slice-frame] take_slice does not touch elements outside its range"); }
            }
            k += 1;
        }
        std::mem::forget(it);
    }

    // @harness name=vec_helper_split_off_right_n4 tier=thorough props=C08,C10,C17 kind=bounded bound="len <= 4; split position symbolic (requires left_len <= vec_len)"
    #[kani::proof]
    #[kani::unwind(6)]
    #[kani::stub(std::vec::Vec::from_raw_parts, s_from_raw_parts)]
    fn vec_helper_split_off_right_n4() {
        let len: usize = kani::any();
        kani::assume(len <= N);
        let it = mk(len);
        let k0: usize = kani::any();
        kani::assume(k0 <= len);                                 // requires left_len <= vec_len (the crate's debug_assert)
        let right = unsafe { it.split_off_right(k0) };
        assert!(right.len() == len - k0, "[C10 C08 helper-split-len] split_off_right(k) returns exactly the elements [k, len)");
        let mut k = 0;
        while k < N { if k < right.len() { assert!(right[k].0 == k0 + k, "[C10 C08 helper-split-contents] in source order"); } k += 1; }
        let d = drops();
        let mut k = 0;
        while k < N { assert!(d[k] == 0, "[C08 helper-split-frame] split_off_right drops nothing"); k += 1; }
        kani::cover!(k0 > 0 && k0 < len, "split in the middle");
        std::mem::forget(right);
        std::mem::forget(it);
    }

    // the same operations seen at the level of the std atomics (every atomic operation on the counter is logged, whatever
    // AtomicCounter method -- existing or new -- performed it)
    // @harness name=vec_ops_std_n4 tier=thorough props=C01,C04,C05,C06,C09,C10,C11,C17,C16 kind=bounded bound="length <= 3; chunk size and every value read symbolic over the full usize domain"
    #[kani::proof]
    #[kani::unwind(18)]
    #[kani::stub(std::sync::atomic::Atomic::<usize>::fetch_add, a_faa)]
    #[kani::stub(std::sync::atomic::Atomic::<usize>::fetch_sub, a_fsub)]
    #[kani::stub(std::sync::atomic::Atomic::<usize>::swap, a_swap)]
    #[kani::stub(std::sync::atomic::Atomic::<usize>::load, a_load)]
    #[kani::stub(std::sync::atomic::Atomic::<usize>::store, a_store)]
    fn vec_ops_std_n4() {
        let len: usize = kani::any();
        kani::assume(len <= N);
        let mut v: Vec<u64> = Vec::new();
        let mut i = 0;
        while i < len { v.push(i as u64); i += 1; }
        let it = ConIterOfVec::new(v);
        st().loc_r = it.counter() as *const AtomicCounter as usize;
        let op: u8 = kani::any();
        kani::assume(op < 5);   // into_seq_iter / drop own the iterator: their loads are not racy, the ledger harnesses run them with the real atomics
        let n: usize = kani::any();
        kani::cover!(op == 2, "buffered pull");
        kani::cover!(op == 3, "skip");
        if op == 0 { let _ = it.next_id_and_value().map(|x| x.idx); chk_std_ops(0, 1, len); }
        else if op == 1 { let _ = it.next_chunk(n).map(|c| c.begin_idx); chk_std_ops(0, n, len); }
        else if op == 2 { kani::assume(n > 0); { let mut b = it.buffered_iter(n); let _ = b.next().map(|c| c.begin_idx); }; chk_std_ops(0, n, len); }
        else if op == 3 { it.skip_to_end(); chk_std_ops(2, 0, len); }
        else if op == 4 {
            let r = it.try_get_len(); chk_std_ops(1, 0, len);
            assert!(n_loads() == 1 && r == Some(remaining(last_load_ret(), len)), "[C11 C05 C06 std-len] try_get_len is max(len - c, 0) for the counter value c it read, whatever that value is");
            let h = it.has_more(); let k = remaining(last_load_ret(), len);
            assert!(h == if k == 0 { crate::HasMore::No } else { crate::HasMore::Yes(k) }, "[C11 C05 C06 std-more] has_more is No iff nothing remains, else Yes(remaining)");
        }
        std::mem::forget(it);
    }

    // Iterator methods of a chunk beyond next(): nth (on which skip / step_by are built) must drop what it skips
    // @harness name=vec_chunk_nth_n4 tier=thorough props=C08,C15,C03 kind=bounded bound="len <= 4; one chunk of any size from any counter value; nth(k) with k <= 2"
    #[kani::proof]
    #[kani::unwind(6)]
    #[kani::stub(std::thread::panicking, any_panicking)]
    fn vec_chunk_nth_n4() {
        let len: usize = kani::any();
        kani::assume(len <= N);
        let it = mk(len);
        let c: usize = kani::any();
        let n: usize = kani::any();
        kani::assume(n >= 1 && n <= usize::MAX - c);
        it.counter().store(c);
        let owned_from = if c < len { c } else { len };
        let mut delivered = [false; N];
        let k: usize = kani::any();
        kani::assume(k <= 2);
        {
            if let Some(mut ch) = it.next_chunk(n) {
                let l = ch.values.len();
                let x = ch.values.nth(k);
                kani::cover!(k == 1 && l == 3, "nth skips one element");
                if k < l {
                    assert!(x.is_some() && x.as_ref().unwrap().0 == c + k, "[C03 C08 chunk-nth] nth(k) of a chunk is its k-th element");
                    assert!(ch.values.len() == l - k - 1, "[C03 chunk-nth-len] len() accounts for the elements nth consumed");
                    delivered[c + k] = true;
                    std::mem::forget(x);
                } else { assert!(x.is_none(), "[C03 chunk-nth] nth past the chunk is None"); }
            };
        }
        drop(it);
        chk_ledger(len, owned_from, &delivered);
    }

    // internal iteration over a chunk (fold, on which for_each / sum / count / last / collect are built), after the chunk was partly
    // consumed with next(): exactly the elements not yet taken, in order, each once; nothing left for Drop to destroy twice
    // @harness name=vec_chunk_fold_n4 tier=thorough props=C08,C01,C02,C03 kind=bounded bound="len <= 4; one chunk of any size from any counter value; 0..=2 items taken with next(), the rest with fold"
    #[kani::proof]
    #[kani::unwind(6)]
    #[kani::stub(std::thread::panicking, any_panicking)]
    fn vec_chunk_fold_n4() {
        let len: usize = kani::any();
        kani::assume(len <= N);
        let it = mk(len);
        let c: usize = kani::any();
        let n: usize = kani::any();
        kani::assume(n >= 1 && n <= usize::MAX - c);
        it.counter().store(c);
        let owned_from = if c < len { c } else { len };
        let mut delivered = [false; N];
        let take: usize = kani::any();
        kani::assume(take <= 2);
        {
            if let Some(ch) = it.next_chunk(n) {
                let mut vals = ch.values;
                let l = vals.len();
                let mut k = 0;
                while k < 2 { if k < take { if let Some(x) = vals.next() { assert!(x.0 == c + k, "[C02 C03 C08 contents] k-th chunk element is the one at position c + k"); delivered[c + k] = true; std::mem::forget(x); } } k += 1; }
                let t = if take < l { take } else { l };
                kani::cover!(t == 1 && l == 3, "one element taken with next(), two left for fold");
                let cnt = vals.fold(0usize, |j, x| {
                    assert!(x.0 == c + t + j, "[C01 C02 C03 C08 chunk-fold] internal iteration continues where next() stopped: no element twice, none skipped");
                    assert!(x.0 < len, "[C03 chunk-fold] internal iteration yields source elements only");
                    delivered[x.0] = true;
                    std::mem::forget(x);
                    j + 1
                });
                assert!(cnt == l - t, "[C01 C03 chunk-fold-len] internal iteration yields exactly the elements next() had not taken");
            };
        }
        drop(it);
        chk_ledger(len, owned_from, &delivered);
    }

    // zero-sized element type (pointer arithmetic on ZSTs degenerates: `ptr.add(k) == ptr`)
    struct Z;
    struct ZCount(std::cell::UnsafeCell<usize>);
    unsafe impl Sync for ZCount {}
    static ZDROPS: ZCount = ZCount(std::cell::UnsafeCell::new(0));
    impl Drop for Z { fn drop(&mut self) { unsafe { *ZDROPS.0.get() += 1; } } }

    // @harness name=vec_zst_n4 tier=thorough props=C03,C08,C01 kind=bounded bound="zero-sized elements, len <= 3; one chunk of any size from any counter value, consumed 0..=3 items"
    #[kani::proof]
    #[kani::unwind(6)]
    fn vec_zst_n4() {
        let len: usize = kani::any();
        kani::assume(len <= N);
        let mut v = Vec::new();
        let mut i = 0;
        while i < len { v.push(Z); i += 1; }
        let it = ConIterOfVec::new(v);
        let c: usize = kani::any();
        let n: usize = kani::any();
        kani::assume(n >= 1 && n <= usize::MAX - c);
        it.counter().store(c);
        let owned_from = if c < len { c } else { len };
        let take: usize = kani::any();
        let mut taken = 0usize;
        {
            let r = it.next_chunk(n);
            kani::cover!(r.is_some(), "chunk of zero-sized elements");
            match r {
                Some(mut ch) => {
                    let l = ch.values.len();
                    assert!(c < len && l == clamp_end(c, n, len) - c, "[C03 C01 zst-exact-len] chunk length is min(n, len - c) also for zero-sized elements");
                    let mut k = 0;
                    while k < N { if k < take { if let Some(z) = ch.values.next() { assert!(k < l, "[C03 zst-exact-len] the chunk yields no more than it announced"); taken += 1; std::mem::forget(z); } else { assert!(k >= l, "[C03 C01 zst-exact-len] the chunk yields every element it announced"); } } k += 1; }
                }
                None => assert!(c >= len, "[C01 C03 none-iff] None only past the end"),
            };
        }
        drop(it);
        let d = unsafe { *ZDROPS.0.get() };
        assert!(d + taken == len - owned_from, "[C08 zst-ledger] every element the iterator still owned is delivered or destroyed exactly once");
    }
}
