// DERIVED from kani/seq.rs by tools/mk_thorough.py (thorough tier: four operations per history).
// @module src/iter/con_iter.rs
// Sequential corollary (C04 last sentence, C05, C06, C11) on the real code with the REAL atomics: any single-threaded sequence of
// four symbolic operations behaves like one sequential cursor over the source.  Bounded: source length <= 3, three operations;
// chunk sizes over the full usize domain.  `*_nowrap` variants run in the no-wrap regime the properties state; `*_fulldomain`
// variants drop it (C16: chunk sizes up to usize::MAX "each followed by further pulls").
mod vk_seq_s4 {
    use crate::{ConIterOfSlice, ConIterOfRange, ConcurrentIter, HasMore};

    const N: usize = 3;

    // chk!(wrapped, cond, msg): once the cumulative requested count has exceeded usize::MAX (only reachable in the *_fulldomain
    // harnesses) a failure is reported under the separate obligation [after-counter-wrap] (known finding W), so that any other
    // failure of the same clause is still reported under its own name
    macro_rules! chk {
        ($c:expr, $cond:expr, $msg:literal) => {
            if $c.over { assert!($cond, "[C16 after-counter-wrap] behaves like a sequential cursor also after the cumulative requested count exceeded usize::MAX"); }
            else { assert!($cond, $msg); }
        };
    }

    // one step of the sequential cursor model; returns (delivered begin, delivered end) of a pull
    // the model cursor is the mathematical cumulative request count: a usize plus an "exceeded usize::MAX" flag
    #[derive(Clone, Copy)]
    struct Cur { v: usize, over: bool }
    impl Cur {
        fn below(&self, len: usize) -> bool { !self.over && self.v < len }
        fn add(&mut self, n: usize) { match self.v.checked_add(n) { Some(x) => self.v = x, None => { self.over = true; self.v = usize::MAX; } } }
    }
    fn model_pull(c: &mut Cur, n: usize, len: usize) -> (usize, usize) {
        let b = *c;
        c.add(n);
        if b.below(len) { let b = b.v; (b, if n < len - b { b + n } else { len }) } else { (len, len) }
    }

    fn run_slice(nowrap: bool) {
        let data: [u8; N] = kani::any();
        let len: usize = kani::any();
        kani::assume(len <= N);
        let slice = &data[..len];
        let it = ConIterOfSlice::new(slice);
        let mut c = Cur { v: 0, over: false };
        let mut last_delivered: Option<usize> = None;
        let mut ended = false;
        let mut step = 0;
        while step < 4 {
            let op: u8 = kani::any();
            kani::assume(op < 5);
            if op == 0 {
                let (b, e) = model_pull(&mut c, 1, len);
                if nowrap { kani::assume(!c.over); }
                let r = it.next_id_and_value();
                if b < e {
                    chk!(c, !ended, "[C05 C06 C16 seq-end-permanent] no element appears again after a pull reported the end");
                    match r { Some(x) => { chk!(c, x.idx == b && std::ptr::eq(x.value, &slice[b]), "[C04 C02 C16 seq-cursor] a single pull yields what the sequential iterator would yield next"); }
                              None => assert!(false, "[C04 C01 C16 seq-none-lost] a pull delivers the next element while elements remain") }
                    if let Some(p) = last_delivered { chk!(c, b > p, "[C04 seq-increasing] positions are delivered in strictly increasing order"); }
                    last_delivered = Some(b);
                } else { chk!(c, r.is_none(), "[C04 C05 C06 C16 seq-end] a pull past the end reports the end"); ended = true; }
            } else if op == 1 || op == 2 {
                let n: usize = kani::any();
                kani::assume(n >= 1);
                let (b, e) = model_pull(&mut c, n, len);
                if nowrap { kani::assume(!c.over); }
                let mut buf = it.buffered_iter(n);
                let r = if op == 1 { it.next_chunk(n).map(|ch| (ch.begin_idx, ch.values.len())) } else { buf.next().map(|ch| (ch.begin_idx, ch.values.len())) };
                if b < e {
                    chk!(c, !ended, "[C05 C06 C16 seq-end-permanent] no element appears again after a pull reported the end");
                    chk!(c, r == Some((b, e - b)), "[C04 C03 C16 seq-cursor] a chunk pull yields the next run of the sequential iterator");
                    if let Some(p) = last_delivered { chk!(c, b > p, "[C04 seq-increasing] positions are delivered in strictly increasing order"); }
                    last_delivered = Some(e - 1);
                } else { chk!(c, r.is_none(), "[C04 C05 C06 C16 seq-end] a pull past the end reports the end"); ended = true; }
            } else if op == 3 {
                let rem = if c.below(len) { len - c.v } else { 0 };
                chk!(c, it.try_get_len() == Some(rem), "[C11 C04 C06 seq-len] try_get_len equals the number of elements later pulls will deliver");
                chk!(c, it.has_more() == if rem == 0 { HasMore::No } else { HasMore::Yes(rem) }, "[C11 seq-more] has_more is Yes(n) exactly in that situation, No otherwise");
            } else {
                it.skip_to_end();
                if c.below(len) { c.v = len; }
                chk!(c, it.has_more() == HasMore::No, "[C06 C11 seq-skip] has_more is No after skip_to_end");
            }
            step += 1;
        }
        kani::cover!(ended && last_delivered == Some(2), "ran to the end of a full slice");
        // into_seq_iter: exactly the undelivered remainder, in order
        let k = if c.below(len) { c.v } else { len };
        let mut s = it.into_seq_iter();
        let mut j = k;
        while j < N + 1 {
            let x = s.next();
            if j < len { chk!(c, x.is_some() && std::ptr::eq(x.unwrap(), &slice[j]), "[C10 C04 seq-remainder] into_seq_iter yields exactly the undelivered remainder, in source order"); }
            else { chk!(c, x.is_none(), "[C10 seq-remainder] into_seq_iter yields nothing but the undelivered remainder"); }
            j += 1;
        }
    }

    // @harness name=seq_slice_nowrap_s4 tier=thorough props=C04,C01,C02,C03,C05,C06,C10,C11,C17 kind=bounded bound="slice length <= 3; four symbolic operations (next, next_chunk(n), buffered next(n), try_get_len/has_more, skip_to_end) then into_seq_iter; n over the full usize domain with cumulative requests <= usize::MAX"
    #[kani::proof]
    #[kani::unwind(7)]
    fn seq_slice_nowrap_s4() { run_slice(true); }


    fn run_range(nowrap: bool) {
        let s0: usize = kani::any();
        let len: usize = kani::any();
        kani::assume(len <= N && s0 <= usize::MAX - len);
        let it = ConIterOfRange::new(s0..s0 + len);
        let mut c = Cur { v: 0, over: false };
        let mut ended = false;
        let mut step = 0;
        while step < 4 {
            let op: u8 = kani::any();
            kani::assume(op < 4);
            if op == 3 {
                it.skip_to_end();
                if c.below(len) { c.v = len; }
                ended = true;
                assert!(it.has_more() == HasMore::No, "[C06 C11 seq-skip] has_more is No after skip_to_end");
            } else if op == 0 {
                let (b, e) = model_pull(&mut c, 1, len);
                if nowrap { kani::assume(!c.over); }
                let r = it.next_id_and_value().map(|x| (x.idx, x.value));
                if b < e { chk!(c, !ended, "[C05 C06 C16 seq-end-permanent] no element appears again after a pull reported the end"); chk!(c, r == Some((b, s0 + b)), "[C04 C02 C16 seq-cursor] a single pull yields what the sequential iterator would yield next"); }
                else { chk!(c, r.is_none(), "[C04 C05 C06 C16 seq-end] a pull past the end reports the end"); ended = true; }
            } else if op == 1 {
                let n: usize = kani::any();
                kani::assume(n >= 1);
                let (b, e) = model_pull(&mut c, n, len);
                if nowrap { kani::assume(!c.over); }
                let r = it.next_chunk(n).map(|mut ch| (ch.begin_idx, ch.values.len(), ch.values.next()));
                if b < e { chk!(c, !ended, "[C05 C06 C16 seq-end-permanent] no element appears again after a pull reported the end"); chk!(c, r == Some((b, e - b, Some(s0 + b))), "[C04 C03 C16 seq-cursor] a chunk pull yields the next run of the sequential iterator"); }
                else { chk!(c, r.is_none(), "[C04 C05 C06 C16 seq-end] a pull past the end reports the end"); ended = true; }
            } else {
                let rem = if c.below(len) { len - c.v } else { 0 };
                chk!(c, it.try_get_len() == Some(rem), "[C11 C04 C06 seq-len] try_get_len equals the number of elements later pulls will deliver");
            }
            step += 1;
        }
        kani::cover!(ended, "ran past the end");
        let k = if c.below(len) { c.v } else { len };
        let r = it.into_seq_iter();
        if k < len { chk!(c, r.start == s0 + k && r.end == s0 + len, "[C10 C04 seq-remainder] into_seq_iter yields exactly the undelivered remainder, in source order"); }
        else { chk!(c, r.start >= r.end, "[C10 seq-remainder] into_seq_iter yields nothing but the undelivered remainder"); }
    }

    // @harness name=seq_range_nowrap_s4 tier=thorough props=C04,C01,C02,C03,C05,C06,C10,C11,C17 kind=bounded bound="range length <= 3, any start; four symbolic operations (next, next_chunk(n), try_get_len, skip_to_end) then into_seq_iter; cumulative requests <= usize::MAX"
    #[kani::proof]
    #[kani::unwind(6)]
    fn seq_range_nowrap_s4() { run_range(true); }

}
