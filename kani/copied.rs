// @module src/iter/copied.rs
// C13, relational: the same operation on X.copied() and on an identical X, both started from the same arbitrary counter state
// (real atomics; the adaptor adds no atomic step of its own): equal indices / lengths / end and skip behaviour, values equal to
// copies of the underlying references, equal counter values afterwards, source unchanged.  Bounded in the source length (3),
// complete in the counter value and the chunk size.  DERIVED from kani/cloned.rs by tools/mk_copied_harness.py -- do not edit.
mod vk_copied {
    use super::*;
    use crate::{ConIterOfSlice, ConIterOfIter, ConcurrentIter, IntoCopied};
    use crate::iter::atomic_iter::AtomicIter;

    const N: usize = 3;
    #[derive(Clone, Copy, PartialEq, Eq)]
    struct V(u8);

    fn data() -> [V; N] { [V(kani::any()), V(kani::any()), V(kani::any())] }

    // @harness name=copied_slice_pulls props=C13,C01,C02,C04 kind=bounded bound="source length <= 3; counter value and chunk size over the full usize domain"
    #[kani::proof]
    #[kani::unwind(6)]
    fn copied_slice_pulls() {
        let d = data();
        let copy = d;
        let len: usize = kani::any();
        kani::assume(len <= N);
        let x = ConIterOfSlice::new(&d[..len]);
        let y = ConIterOfSlice::new(&d[..len]).copied();
        let c: usize = kani::any();
        x.counter().store(c);
        y.counter().store(c);
        let op: u8 = kani::any();
        kani::assume(op < 3);
        if op == 0 {
            let a = x.next_id_and_value();
            let b = y.next_id_and_value();
            kani::cover!(a.is_some(), "delivering");
            match (a, b) {
                (Some(a), Some(b)) => { assert!(a.idx == b.idx, "[C13 same-idx] same index as the underlying iterator"); assert!(*a.value == b.value, "[C13 clone-of] the value is a copy of the element the underlying iterator delivers"); }
                (None, None) => {}
                _ => assert!(false, "[C13 same-end] the adaptor reports the end exactly when the underlying iterator does"),
            }
        } else if op == 1 {
            let n: usize = kani::any();
            let a = x.next_chunk(n);
            let b = y.next_chunk(n);
            kani::cover!(a.is_some(), "chunk delivered");
            match (a, b) {
                (Some(mut a), Some(mut b)) => {
                    assert!(a.begin_idx == b.begin_idx, "[C13 same-begin] same chunk begin index as the underlying iterator");
                    assert!(a.values.len() == b.values.len(), "[C13 same-chunk-len] same chunk boundaries as the underlying iterator");
                    let mut k = 0;
                    while k < N + 1 { match (a.values.next(), b.values.next()) { (Some(p), Some(q)) => assert!(*p == q, "[C13 clone-of] chunk elements are copies of the underlying chunk's elements"), (None, None) => {}, _ => assert!(false, "[C13 same-chunk-len] same number of chunk elements") } k += 1; }
                }
                (None, None) => {}
                _ => assert!(false, "[C13 same-end] the adaptor reports the end exactly when the underlying iterator does"),
            }
        } else {
            let n: usize = kani::any();
            kani::assume(n > 0);
            let mut bx = x.buffered_iter(n);
            let mut by = y.buffered_iter(n);
            let a = bx.next();
            let b = by.next();
            kani::cover!(a.is_some(), "buffered chunk delivered");
            match (a, b) {
                (Some(mut a), Some(mut b)) => {
                    assert!(a.begin_idx == b.begin_idx, "[C13 same-begin] same chunk begin index as the underlying iterator");
                    assert!(a.values.len() == b.values.len(), "[C13 same-chunk-len] same chunk boundaries as the underlying iterator");
                    let mut k = 0;
                    while k < N + 1 { match (a.values.next(), b.values.next()) { (Some(p), Some(q)) => assert!(*p == q, "[C13 clone-of] chunk elements are copies of the underlying chunk's elements"), (None, None) => {}, _ => assert!(false, "[C13 same-chunk-len] same number of chunk elements") } k += 1; }
                }
                (None, None) => {}
                _ => assert!(false, "[C13 same-end] the adaptor reports the end exactly when the underlying iterator does"),
            };
        }
        assert!(x.counter().current() == y.counter().current(), "[C13 same-state] the adaptor leaves the iterator in the same state as the underlying operation");
        assert!(d == copy, "[C13 source-untouched] the source elements are neither modified nor moved");
    }

    // the adaptor under interference: every value the shared counter returns is arbitrary (other threads act between any two of
    // the adaptor's steps), so whatever the adaptor reports must be derived from its own single fetch_add, never from a separate read
    // @harness name=copied_slice_havoc props=C13,C01,C02,C03,C04 kind=bounded bound="source length <= 3; every counter value and the chunk size over the full usize domain"
    #[kani::proof]
    #[kani::unwind(6)]
    #[kani::stub(crate::iter::atomic_counter::AtomicCounter::fetch_and_add, c_faa)]
    #[kani::stub(crate::iter::atomic_counter::AtomicCounter::fetch_and_increment, c_inc)]
    #[kani::stub(crate::iter::atomic_counter::AtomicCounter::current, c_cur)]
    #[kani::stub(crate::iter::atomic_counter::AtomicCounter::store, c_store)]
    fn copied_slice_havoc() {
        use crate::verif_common::*;
        let d = data();
        let len: usize = kani::any();
        kani::assume(len <= N);
        let y = ConIterOfSlice::new(&d[..len]).copied();
        let op: u8 = kani::any();
        kani::assume(op < 4);
        if op < 2 {
            let r = if op == 0 { y.next_id_and_value().map(|x| (x.idx, x.value)) } else { y.next().map(|v| (0usize, v)) };
            assert!(n_writes() == 1 && first_write().kind == 1 && first_write().arg == 1, "[C01 C04 C13 adaptor-one-rmw] a single pull through the adaptor performs exactly one fetch_add(1) on the underlying counter");
            let b = first_write().ret;
            kani::cover!(r.is_some(), "delivering");
            match r {
                Some((i, v)) => { assert!(b < len && (op == 1 || i == b), "[C01 C02 C13 adaptor-idx] the adaptor delivers the position its fetch_add reserved"); assert!(v == d[b], "[C01 C02 C13 adaptor-value] ... and a copy of the element at that position"); }
                None => assert!(b >= len, "[C01 C05 C13 adaptor-none] None only past the end"),
            }
        } else {
            let n: usize = kani::any();
            kani::assume(op == 2 || n > 0);
            let mut buf = y.buffered_iter(if op == 3 { n } else { 1 });
            let k: usize = kani::any();
            let r = if op == 3 { buf.next().map(|c| (c.begin_idx, c.values.len(), { let mut v = c.values; v.nth(k) })) }
                    else { y.next_chunk(n).map(|c| (c.begin_idx, c.values.len(), { let mut v = c.values; v.nth(k) })) };
            assert!(n_writes() == 1 && first_write().kind == 1 && first_write().arg == n, "[C01 C04 C13 adaptor-one-rmw] a chunk pull through the adaptor performs exactly one fetch_add(n) on the underlying counter");
            let b = first_write().ret;
            let en = clamp_end(b, n, len);
            kani::cover!(r.is_some() && op == 3, "buffered chunk");
            kani::cover!(r.is_some() && op == 2 && en - b < n, "short one-shot chunk");
            match r {
                Some((begin, l, p)) => {
                    assert!(b < en && begin == b, "[C02 C03 C13 adaptor-begin] the chunk's begin index is the position its own fetch_add reserved");
                    if let Some(q) = p { assert!(b + k < len && q == d[b + k], "[C01 C02 C03 C13 adaptor-contents] the k-th chunk element is a copy of element b + k"); }
                    assert!(l == en - b, "[C01 C03 C13 adaptor-exact-len] chunk length is min(n, len - b)");
                    if k < l { assert!(p.is_some(), "[C03 C13 adaptor-exact-len] the chunk yields every element it announced"); }
                    else { assert!(p.is_none(), "[C03 C13 adaptor-exact-len] the chunk yields exactly the announced number of elements"); }
                }
                None => assert!(b == en, "[C01 C03 C05 C13 adaptor-none] None only when nothing is left"),
            }
        }
    }

    // @harness name=copied_slice_queries props=C13,C06 kind=bounded bound="source length <= 3; counter value over the full usize domain"
    #[kani::proof]
    #[kani::unwind(6)]
    fn copied_slice_queries() {
        let d = data();
        let copy = d;
        let len: usize = kani::any();
        kani::assume(len <= N);
        let x = ConIterOfSlice::new(&d[..len]);
        let y = ConIterOfSlice::new(&d[..len]).copied();
        let c: usize = kani::any();
        x.counter().store(c);
        y.counter().store(c);
        assert!(x.try_get_len() == y.try_get_len(), "[C13 same-len] same remaining length as the underlying iterator");
        assert!(x.has_more() == y.has_more(), "[C13 same-len] same has_more as the underlying iterator");
        { use crate::iter::atomic_iter::AtomicIterWithInitialLen; assert!(x.initial_len() == y.initial_len() && y.initial_len() == len, "[C13 C11 same-initial-len] same initial length as the underlying iterator"); }
        let op: u8 = kani::any();
        kani::assume(op < 2);
        if op == 0 {
            x.skip_to_end();
            y.skip_to_end();
            kani::cover!(c < len, "skip with elements remaining");
            assert!(x.counter().current() == y.counter().current(), "[C13 C06 same-skip] skip_to_end acts on the adaptor as on the underlying iterator");
            assert!(y.next().is_none() && y.try_get_len() == Some(0), "[C13 C06 same-skip] after skip_to_end the adaptor reports the end");
        } else {
            let mut a = x.into_seq_iter();
            let mut b = y.into_seq_iter();
            kani::cover!(c < len, "remainder non-empty");
            let mut k = 0;
            while k < N + 1 { match (a.next(), b.next()) { (Some(p), Some(q)) => assert!(*p == q, "[C13 same-remainder] into_seq_iter yields copies of the underlying remainder, in order"), (None, None) => {}, _ => assert!(false, "[C13 same-remainder] into_seq_iter yields exactly as many elements as the underlying remainder") } k += 1; }
        }
        assert!(d == copy, "[C13 source-untouched] the source elements are neither modified nor moved");
    }

    // @harness name=copied_iter_pulls props=C13,C06,C16 kind=bounded bound="wrapped iterator of references of length 3; up to 1 earlier single pull, optional skip_to_end, then one single / chunk(2) / buffered(2) pull or an empty chunk request followed by a single pull (real atomics, sequential)"
    #[kani::proof]
    #[kani::unwind(6)]
    fn copied_iter_pulls() {
        let d = data();
        let copy = d;
        let x = ConIterOfIter::new(d.iter());
        let y = ConIterOfIter::new(d.iter()).copied();
        let pre: bool = kani::any();
        if pre { let _ = x.next(); let _ = y.next(); }
        let skip: bool = kani::any();
        if skip { x.skip_to_end(); y.skip_to_end(); }
        let op: u8 = kani::any();
        kani::assume(op < 4);
        kani::cover!(skip && op == 2, "buffered pull after skip_to_end");
        kani::cover!(!skip && op == 3, "empty request");
        kani::cover!(!skip && op == 2 && pre, "buffered pull in the middle");
        if op == 0 {
            match (x.next_id_and_value(), y.next_id_and_value()) {
                (Some(a), Some(b)) => { assert!(a.idx == b.idx, "[C13 same-idx] same index as the underlying iterator"); assert!(*a.value == b.value, "[C13 clone-of] the value is a copy of the element the underlying iterator delivers"); }
                (None, None) => {}
                _ => assert!(false, "[C13 same-end] the adaptor reports the end exactly when the underlying iterator does"),
            }
        } else if op == 1 {
            match (x.next_chunk(2), y.next_chunk(2)) {
                (Some(mut a), Some(mut b)) => {
                    assert!(a.begin_idx == b.begin_idx && a.values.len() == b.values.len(), "[C13 same-begin] same chunk begin index and boundaries as the underlying iterator");
                    let mut k = 0;
                    while k < 3 { match (a.values.next(), b.values.next()) { (Some(p), Some(q)) => assert!(*p == q, "[C13 clone-of] chunk elements are copies of the underlying chunk's elements"), (None, None) => {}, _ => assert!(false, "[C13 same-chunk-len] same number of chunk elements") } k += 1; }
                }
                (None, None) => {}
                _ => assert!(false, "[C13 same-end] the adaptor reports the end exactly when the underlying iterator does"),
            };
        } else if op == 3 {
            // an empty request is not the end of the source -- through the adaptor either
            let (a, b) = (x.next_chunk(0).map(|c| c.begin_idx), y.next_chunk(0).map(|c| c.begin_idx));
            assert!(a == b, "[C13 C16 same-empty-request] next_chunk(0) through the adaptor answers as the underlying iterator does");
            match (x.next_id_and_value(), y.next_id_and_value()) {
                (Some(a), Some(b)) => { assert!(a.idx == b.idx && *a.value == b.value, "[C13 C16 same-after-empty-request] after an empty request the adaptor still delivers what the underlying iterator delivers"); }
                (None, None) => {}
                _ => assert!(false, "[C13 C16 C05 same-after-empty-request] an empty request through the adaptor does not end the iteration"),
            }
        } else {
            let mut bx = x.buffered_iter(2);
            let mut by = y.buffered_iter(2);
            match (bx.next(), by.next()) {
                (Some(mut a), Some(mut b)) => {
                    assert!(a.begin_idx == b.begin_idx && a.values.len() == b.values.len(), "[C13 same-begin] same chunk begin index and boundaries as the underlying iterator");
                    let mut k = 0;
                    while k < 3 { match (a.values.next(), b.values.next()) { (Some(p), Some(q)) => assert!(*p == q, "[C13 clone-of] chunk elements are copies of the underlying chunk's elements"), (None, None) => {}, _ => assert!(false, "[C13 same-chunk-len] same number of chunk elements") } k += 1; }
                }
                (None, None) => {}
                _ => assert!(false, "[C13 same-end] the adaptor reports the end exactly when the underlying iterator does"),
            };
        }
        assert!(x.try_get_len() == y.try_get_len() && x.has_more() == y.has_more(), "[C13 same-len] same remaining length as the underlying iterator");
        assert!(d == copy, "[C13 source-untouched] the source elements are neither modified nor moved");
    }


    // state kept by the adaptor's buffered puller between calls must not change what it forwards: three consecutive pulls on ONE
    // buffered iterator (full chunk, short last chunk, end) and then a pull by somebody else; after every step the adaptor and the
    // underlying iterator agree on the result, on the tickets handed out and on the recorded end, and the final pull returns
    // (public API only)
    // @harness name=copied_iter_buffered_seq props=C13,C09,C01,C05 kind=bounded bound="wrapped iterator of references of length 3; three consecutive buffered(2) pulls on one buffered iterator, then one single pull (real atomics, sequential)"
    #[kani::proof]
    #[kani::unwind(6)]
    fn copied_iter_buffered_seq() {
        let d = data();
        let x = ConIterOfIter::new(d.iter());
        let y = ConIterOfIter::new(d.iter()).copied();
        {
            let mut bx = x.buffered_iter(2);
            let mut by = y.buffered_iter(2);
            let mut step = 0;
            while step < 3 {
                match (bx.next(), by.next()) {
                    (Some(mut a), Some(mut b)) => {
                        assert!(a.begin_idx == b.begin_idx && a.values.len() == b.values.len(), "[C13 C01 same-begin] same chunk begin index and boundaries as the underlying iterator");
                        let mut k = 0;
                        while k < 2 { match (a.values.next(), b.values.next()) { (Some(p), Some(q)) => assert!(*p == q, "[C13 clone-of] chunk elements are copies of the underlying chunk's elements"), (None, None) => {}, _ => assert!(false, "[C13 same-chunk-len] same number of chunk elements") } k += 1; }
                    }
                    (None, None) => {}
                    _ => assert!(false, "[C13 C05 same-end] the adaptor reports the end exactly when the underlying iterator does"),
                }
                assert!(x.counter().current() == y.counter().current(), "[C13 C09 same-protocol-state] every pull through the adaptor takes a ticket exactly when the underlying pull does");
                assert!(x.try_get_len() == y.try_get_len() && x.has_more() == y.has_more(), "[C13 C05 same-protocol-state] the end is recorded through the adaptor exactly when the underlying pull records it");
                step += 1;
            }
        }
        kani::cover!(true, "three pulls done");
        assert!(x.next().is_none() && y.next().is_none(), "[C13 C09 C05 same-end] a later pull by anybody returns and reports the end (every earlier ticket was published: the unwinding assertions bound the wait)");
    }

    // state kept by the adaptor's buffered puller between calls must not change what it forwards: three consecutive pulls on ONE
    // buffered iterator (full chunk, short last chunk, end) and then a pull by somebody else; after every step the adaptor and the
    // underlying iterator agree on the result and on the state of the underlying protocol (tickets handed out, tickets published, end flag)
}
