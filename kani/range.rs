// @module src/iter/implementors/range.rs
// L1 contracts of ConIterOfRange at Idx = usize (the only std type satisfying the bounds), loop-free, over the full
// usize domain of start, end, chunk size and of every value the counter may return (pure havoc) => complete, not bounded.
// Contract clauses are the same as for the slice kind (contracts/slice.vrs) with src[i] = start + i.
mod vk_range {
    use super::*;
    use crate::verif_common::*;
    use crate::iter::buffered::buffered_chunk::BufferedChunk;

    fn mk() -> (ConIterOfRange<usize>, usize, usize, usize) {
        let s: usize = kani::any();
        let e: usize = kani::any();
        let len = if e >= s { e - s } else { 0 };
        (ConIterOfRange::new(s..e), s, e, len)
    }

    // @harness name=range_next inputs=s,e,b scenario="kind=range s={s} e={e} c={b} ops=next" props=C01,C02,C04,C05,C06,C09,C16 kind=complete
    #[kani::proof]
    #[kani::stub(crate::iter::atomic_counter::AtomicCounter::fetch_and_add, c_faa)]
    #[kani::stub(crate::iter::atomic_counter::AtomicCounter::fetch_and_increment, c_inc)]
    #[kani::stub(crate::iter::atomic_counter::AtomicCounter::current, c_cur)]
    #[kani::stub(crate::iter::atomic_counter::AtomicCounter::store, c_store)]
    fn range_next() {
        let (it, s, _e, len) = mk();
        let r = it.next_id_and_value();
        assert!(n_writes() == 1 && first_write().kind == 1 && first_write().arg == 1, "[C01 C04 C05 C06 C09 ops] next performs exactly one fetch_add(1)");
        let b = first_write().ret;
        kani::cover!(b < len, "delivering");
        kani::cover!(b >= len && len > 0, "past the end");
        match r {
            Some(nx) => {
                assert!(b < len, "[C01 C05 C06 C16 some-iff] an element is delivered only for a reserved position below len");
                assert!(nx.idx == b, "[C02 idx] reported index is the reserved position");
                assert!(nx.value == s + b, "[C01 C02 C16 value] value is start + position");
            }
            None => assert!(b >= len, "[C01 C05 C06 C16 none-iff] None only when the reserved position is at or past the end"),
        }
    }

    // @harness name=range_next_value inputs=s,e,b scenario="kind=range s={s} e={e} c={b} ops=next" props=C01,C02,C05,C06,C16 kind=complete
    #[kani::proof]
    #[kani::stub(crate::iter::atomic_counter::AtomicCounter::fetch_and_add, c_faa)]
    #[kani::stub(crate::iter::atomic_counter::AtomicCounter::fetch_and_increment, c_inc)]
    fn range_next_value() {
        let (it, s, _e, len) = mk();
        let r = it.next();
        let b = first_write().ret;
        kani::cover!(r.is_some(), "delivering");
        assert!(r == if b < len { Some(s + b) } else { None }, "[C01 C02 C05 C06 C16 next] next() is start + position, or None past the end");
    }

    // @harness name=range_chunk inputs=s,e,n,b scenario="kind=range s={s} e={e} c={b} ops=chunk:{n}" props=C01,C02,C03,C04,C05,C06,C09,C16 kind=complete bound="contents beyond the first element checked for chunks of <= 3"
    #[kani::proof]
    #[kani::unwind(5)]
    #[kani::stub(crate::iter::atomic_counter::AtomicCounter::fetch_and_add, c_faa)]
    #[kani::stub(crate::iter::atomic_counter::AtomicCounter::fetch_and_increment, c_inc)]
    #[kani::stub(crate::iter::atomic_counter::AtomicCounter::current, c_cur)]
    #[kani::stub(crate::iter::atomic_counter::AtomicCounter::store, c_store)]
    fn range_chunk() {
        let (it, s, _e, len) = mk();
        let n: usize = kani::any();
        let r = it.next_chunk(n);
        assert!(n_writes() == 1 && first_write().kind == 1 && first_write().arg == n, "[C01 C04 C05 C06 C09 ops] next_chunk(n) performs exactly one fetch_add(n)");
        let b = first_write().ret;
        let en = clamp_end(b, n, len);
        kani::cover!(b < en && en - b < n, "short chunk at the end");
        kani::cover!(b < en && en - b == n && n > 1, "full chunk");
        kani::cover!(n == 0, "chunk size zero");
        kani::cover!(n == usize::MAX && b > 0 && b < len, "huge chunk");
        match r {
            Some(mut c) => {
                assert!(b < en, "[C01 C03 C05 C06 C16 nonempty] a chunk is returned only if it is non-empty");
                assert!(c.begin_idx == b, "[C02 C03 begin] begin index is the reserved position");
                let l = c.values.len();
                if l > 3 {
                    // (contents first: a failed assertion ends its path)
                    assert!(c.values.next() == Some(s + b), "[C01 C02 C16 contents] first element is start + b");
                    assert!(c.values.len() + 1 == l, "[C03 exact-len] len decreases with consumption");
                }
                assert!(l == en - b, "[C01 C03 C16 exact-len] announced length is min(n, len - b)");
                assert!(l >= 1 && l <= n && (l == n || b + l == len), "[C03 bounded] 1 <= len <= n, short only at the end");
                if l <= 3 {
                    let mut k = 0;
                    while k < l { let x = c.values.next(); assert!(x == Some(s + b + k), "[C01 C02 C03 C16 contents] k-th element is start + b + k"); k += 1; }
                    assert!(c.values.next().is_none(), "[C03 exact-len] yields exactly the announced number of elements");
                }
            }
            None => assert!(b == en, "[C01 C03 C05 C06 C16 none-iff] None only when nothing is left at the reserved position"),
        }
    }

    // @harness name=range_buffered inputs=s,e,n,b scenario="kind=range s={s} e={e} c={b} ops=buffered:{n}" props=C01,C02,C03,C04,C05,C06,C16 kind=complete bound="contents beyond the first element checked for chunks of <= 3"
    #[kani::proof]
    #[kani::unwind(5)]
    #[kani::stub(crate::iter::atomic_counter::AtomicCounter::fetch_and_add, c_faa)]
    #[kani::stub(crate::iter::atomic_counter::AtomicCounter::fetch_and_increment, c_inc)]
    #[kani::stub(crate::iter::atomic_counter::AtomicCounter::current, c_cur)]
    #[kani::stub(crate::iter::atomic_counter::AtomicCounter::store, c_store)]
    fn range_buffered() {
        let (it, s, _e, len) = mk();
        let n: usize = kani::any();
        kani::assume(n > 0);
        let mut buf = it.buffered_iter(n);
        let r = buf.next();
        assert!(n_writes() == 1 && first_write().kind == 1 && first_write().arg == n, "[C01 C04 C05 C06 C09 ops] buffered next performs exactly one fetch_add(chunk_size)");
        let b = first_write().ret;
        let en = clamp_end(b, n, len);
        kani::cover!(b < en && en - b < n, "short chunk at the end");
        kani::cover!(n == usize::MAX && b > 0 && b < len, "huge chunk");
        match r {
            Some(mut c) => {
                assert!(b < en, "[C01 C03 C05 C06 C16 nonempty] a chunk is returned only if it is non-empty");
                assert!(c.begin_idx == b, "[C02 C03 begin] begin index is the reserved position");
                let l = c.values.len();
                assert!(l == en - b, "[C01 C03 C16 exact-len] announced length is min(n, len - b)");
                if l <= 3 {
                    let mut k = 0;
                    while k < l { let x = c.values.next(); assert!(x == Some(s + b + k), "[C01 C02 C03 C16 contents] k-th element is start + b + k"); k += 1; }
                    assert!(c.values.next().is_none(), "[C03 exact-len] yields exactly the announced number of elements");
                } else {
                    assert!(c.values.next() == Some(s + b), "[C01 C02 C16 contents] first element is start + b");
                }
            }
            None => assert!(b == en, "[C01 C03 C05 C06 C16 none-iff] None only when nothing is left at the reserved position"),
        }
    }

    // @harness name=range_skip inputs=s,e scenario="kind=range s={s} e={e} c=0 ops=next,skip,next,len,seq" props=C05,C06,C11,C16 kind=complete
    #[kani::proof]
    #[kani::stub(crate::iter::atomic_counter::AtomicCounter::fetch_and_add, c_faa)]
    #[kani::stub(crate::iter::atomic_counter::AtomicCounter::fetch_and_increment, c_inc)]
    #[kani::stub(crate::iter::atomic_counter::AtomicCounter::current, c_cur)]
    #[kani::stub(crate::iter::atomic_counter::AtomicCounter::store, c_store)]
    fn range_skip() {
        let (it, _s, _e, len) = mk();
        it.skip_to_end();
        kani::cover!(len > 0, "non-empty range");
        assert!(n_writes() == 1 && first_write().kind == 3, "[C05 C06 C11 skip-ops] skip_to_end is exactly one store");
        assert!(first_write().arg >= len, "[C05 C06 C11 skip-val] the stored value is at or past the end");
    }

    // @harness name=range_len inputs=s,e,which,c scenario="kind=range s={s} e={e} c={c} ops=len" props=C11,C05,C06,C16 kind=complete
    #[kani::proof]
    #[kani::stub(crate::iter::atomic_counter::AtomicCounter::fetch_and_add, c_faa)]
    #[kani::stub(crate::iter::atomic_counter::AtomicCounter::fetch_and_increment, c_inc)]
    #[kani::stub(crate::iter::atomic_counter::AtomicCounter::current, c_cur)]
    #[kani::stub(crate::iter::atomic_counter::AtomicCounter::store, c_store)]
    fn range_len() {
        let (it, _s, _e, len) = mk();
        let which: bool = kani::any();
        if which {
            let r = it.try_get_len();
            assert!(n_writes() == 0 && n_loads() == 1, "[C11 len-ops] try_get_len is one load and no write");
            let c = first_load().ret;
            kani::cover!(c < len, "elements remain");
            assert!(r == Some(remaining(c, len)), "[C11 C05 C06 len] try_get_len is max(len - c, 0)");
        } else {
            let r = it.has_more();
            assert!(n_writes() == 0 && n_loads() == 1, "[C11 more-ops] has_more is one load and no write");
            let k = remaining(first_load().ret, len);
            assert!(r == if k == 0 { crate::HasMore::No } else { crate::HasMore::Yes(k) }, "[C11 C05 C06 more] has_more is No iff nothing remains, else Yes(remaining)");
        }
    }

    // @harness name=range_into_seq inputs=s,e,c scenario="kind=range s={s} e={e} c={c} ops=seq" props=C10,C16 kind=complete
    #[kani::proof]
    #[kani::stub(crate::iter::atomic_counter::AtomicCounter::fetch_and_add, c_faa)]
    #[kani::stub(crate::iter::atomic_counter::AtomicCounter::fetch_and_increment, c_inc)]
    #[kani::stub(crate::iter::atomic_counter::AtomicCounter::current, c_cur)]
    #[kani::stub(crate::iter::atomic_counter::AtomicCounter::store, c_store)]
    fn range_into_seq() {
        let (it, s, e, len) = mk();
        let r = it.into_seq_iter();
        assert!(n_writes() == 0 && n_loads() == 1, "[C10 seq-ops] into_seq_iter is one load and no write");
        let c = first_load().ret;
        kani::cover!(c < len, "remainder non-empty");
        kani::cover!(c > len, "overshot");
        if c < len { assert!(r.start == s + c && r.end == e, "[C10 C16 remainder] remainder is start + c .. end"); }
        else { assert!(r.start >= r.end, "[C10 C16 remainder] remainder is empty once the counter is at or past the end"); }
    }

    // @harness name=range_get props=C02,C16 kind=complete
    #[kani::proof]
    fn range_get() {
        let (it, s, _e, len) = mk();
        let i: usize = kani::any();
        let r = it.get(i);
        kani::cover!(r.is_some(), "in range");
        assert!(r == if i < len { Some(s + i) } else { None }, "[C02 C16 get] get(i) is start + i for i < len, else None");
    }

    // @harness name=range_clone props=C19 kind=complete
    #[kani::proof]
    fn range_clone() {
        let (it, s, e, len) = mk();
        let c0: usize = kani::any();
        it.counter().store(c0);
        let cl = it.clone();
        assert!(cl.counter().current() == c0, "[C19 clone-pos] a clone starts at the original's current position");
        let x = cl.next_id_and_value().map(|x| (x.idx, x.value));
        kani::cover!(x.is_some(), "clone delivers");
        assert!(x == if c0 < len { Some((c0, s + c0)) } else { None }, "[C19 clone-src] a clone iterates the same range from that position");
        assert!(it.counter().current() == c0, "[C19 independent] pulling from the clone does not move the original");
        let r = it.into_seq_iter();
        if c0 < len { assert!(r.start == s + c0 && r.end == e, "[C19 C10 clone-src] the original is unaffected by its clone"); }
    }

    // the same operations seen at the level of the std atomics (every atomic operation on the counter is logged, whatever
    // AtomicCounter method -- existing or new -- performed it)
    // @harness name=range_ops_std props=C01,C04,C05,C06,C09,C10,C11,C17,C16 kind=complete bound="any range; chunk size and every value read symbolic over the full usize domain"
    #[kani::proof]
        #[kani::stub(std::sync::atomic::Atomic::<usize>::fetch_add, a_faa)]
    #[kani::stub(std::sync::atomic::Atomic::<usize>::fetch_sub, a_fsub)]
    #[kani::stub(std::sync::atomic::Atomic::<usize>::swap, a_swap)]
    #[kani::stub(std::sync::atomic::Atomic::<usize>::load, a_load)]
    #[kani::stub(std::sync::atomic::Atomic::<usize>::store, a_store)]
    fn range_ops_std() {
        let (it, _s, _e, len) = mk();
        st().loc_r = it.counter() as *const AtomicCounter as usize;
        let op: u8 = kani::any();
        kani::assume(op < 6);
        let n: usize = kani::any();
        kani::cover!(op == 2, "buffered pull");
        kani::cover!(op == 3, "skip");
        if op == 0 { let _ = it.next_id_and_value().map(|x| x.idx); chk_std_ops(0, 1, len); }
        else if op == 1 { let _ = it.next_chunk(n).map(|c| c.begin_idx); chk_std_ops(0, n, len); }
        else if op == 2 { kani::assume(n > 0); { let mut b = it.buffered_iter(n); let _ = b.next().map(|c| c.begin_idx); }; chk_std_ops(0, n, len); }
        else if op == 3 { it.skip_to_end(); chk_std_ops(2, 0, len); }
        else if op == 4 {
            let r = it.try_get_len(); chk_std_ops(1, 0, len);
            assert!(n_loads() == 1 && r == Some(remaining(last_load_ret(), len)), "[C11 C05 C06 std-len] try_get_len is max(len - c, 0) for the counter value c it read, whatever that value is");
            let h = it.has_more(); let k = remaining(last_load_ret(), len);
            assert!(h == if k == 0 { crate::HasMore::No } else { crate::HasMore::Yes(k) }, "[C11 C05 C06 std-more] has_more is No iff nothing remains, else Yes(remaining)");
        }
        else { let s = it.into_seq_iter(); chk_std_ops(1, 0, len); std::mem::forget(s); }
    }
}
