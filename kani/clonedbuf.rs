// @module src/iter/buffered/cloned_buffered_chunk.rs
// C13 for the buffered chunk of the cloned() adaptor: it is the underlying chunk with the same chunk size, whatever the size
// (loop-free, full usize domain => complete).  kani/copiedbuf.rs is derived from this file (tools/mk_copied_harness.py).
mod vk_clonedbuf {
    use super::*;
    use crate::iter::buffered::slice::BufferedSlice;

    // @harness name=clonedbuf_size props=C13,C03 kind=complete
    #[kani::proof]
    fn clonedbuf_size() {
        let n: usize = kani::any();
        let c = ClonedBufferedChunk::<u8, BufferedSlice<u8>>::new(n);
        kani::cover!(n > 4096, "large chunk size");
        assert!(c.chunk_size() == n, "[C13 C03 adaptor-chunk-size] the adaptor's buffered chunk reports the requested chunk size");
        assert!(c.chunk.chunk_size() == n, "[C13 C03 adaptor-chunk-size] ... and pulls with exactly that size from the underlying iterator (same chunk boundaries)");
    }
}
